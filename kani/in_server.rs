// Kani harness compiled inside humphrey_server::server::server (verify_connection is private there).
// C19, block mode: a connection from a listed address is refused before any request is read.

use super::{verify_connection, AppState};
use crate::config::{BlacklistConfig, BlacklistMode, Config};
use std::net::{IpAddr, Ipv4Addr, Ipv6Addr, SocketAddr, TcpStream};
use std::sync::Arc;

pub struct Gh { pub peer: u8, pub peer_ok: bool }
pub static mut GH: Gh = Gh { peer: 0, peer_ok: true };
pub fn gh() -> &'static mut Gh { unsafe { &mut *std::ptr::addr_of_mut!(GH) } }
fn addr(k: u8) -> IpAddr {
    match k { 0 => IpAddr::V4(Ipv4Addr::new(127, 0, 0, 1)), 1 => IpAddr::V4(Ipv4Addr::new(10, 1, 2, 3)), _ => IpAddr::V6(Ipv6Addr::new(0, 0, 0, 0, 0, 0, 0, 1)) }
}
pub fn stub_peer_addr(_s: &TcpStream) -> std::io::Result<SocketAddr> {
    if gh().peer_ok { Ok(SocketAddr::new(addr(gh().peer), 4000)) } else { Err(std::io::Error::from(std::io::ErrorKind::NotConnected)) }
}
pub fn stub_format(_args: std::fmt::Arguments<'_>) -> String { String::new() }
pub fn stub_log<T: AsRef<str>>(_l: &crate::server::logger::Logger, _m: T) {}
pub fn stub_close(_fd: i32) -> i32 { 0 }

fn verify_connection_contract(block: bool) {
    use std::os::unix::io::FromRawFd;
    let mut list: Vec<IpAddr> = Vec::with_capacity(2);
    list.push(IpAddr::V6(Ipv6Addr::new(0, 0, 0, 0, 0, 0, 0, 9)));
    list.push(addr(0));
    let config = Config {
        source: crate::config::ConfigSource::Default,
        address: String::new(),
        port: 0,
        threads: 1,
        default_websocket_proxy: None,
        hosts: Vec::new(),
        default_host: crate::config::HostConfig { matches: String::new(), routes: Vec::new() },
        logging: crate::config::LoggingConfig { level: crate::server::logger::LogLevel::Error, console: false, file: None },
        cache: crate::config::CacheConfig { size_limit: 0, time_limit: 1 },
        blacklist: BlacklistConfig { list, mode: if block { BlacklistMode::Block } else { BlacklistMode::Forbidden } },
        connection_timeout: None,
    };
    let state = Arc::new(AppState { config, cache: std::sync::RwLock::new(crate::server::cache::Cache::default()), logger: crate::server::logger::Logger::default() });
    let peer: u8 = kani::any();
    kani::assume(peer < 3);
    gh().peer = peer;
    gh().peer_ok = kani::any();
    let mut stream = unsafe { TcpStream::from_raw_fd(3) };
    let admitted = verify_connection(&mut stream, state.clone());
    if !gh().peer_ok {
        assert!(!admitted, "a connection whose peer address cannot be determined is refused");
    } else if block {
        assert!(admitted == (peer != 0), "block mode: the connection is refused exactly when the peer address is listed (IPv4 or IPv6)");
    } else {
        assert!(admitted, "forbidden mode: connections are accepted (requests are answered 403 instead)");
    }
    kani::cover!(!admitted, "a refusal is reachable");
    std::mem::forget(stream);
    std::mem::forget(state);
}
macro_rules! h {
    ($name:ident, $block:expr) => {
        #[kani::proof]
        #[kani::unwind(6)]
        #[kani::stub(std::net::TcpStream::peer_addr, stub_peer_addr)]
        #[kani::stub(alloc::fmt::format, stub_format)]
        #[kani::stub(crate::server::logger::Logger::warn, stub_log)]
        #[kani::stub(libc::close, stub_close)]
        pub fn $name() { verify_connection_contract($block); }
    };
}
h!(c19_verify_connection_block, true);
h!(c19_verify_connection_forbidden, false);
