// Kani harnesses compiled inside humphrey_server::server::cache (private fields of Cache are visible here).
// C16: per-operation contracts from an ARBITRARY well-formed cache => by induction, every history of set/get.

use super::{Cache, CachedItem};
use humphrey::http::mime::MimeType;
use std::collections::VecDeque;
use std::time::{Duration, SystemTime};

/// ghost clock (seconds since the epoch) returned by the stub of SystemTime::now
pub mod clock {
    pub static mut NOW: u64 = 0;
}
pub fn stub_now() -> SystemTime {
    SystemTime::UNIX_EPOCH + Duration::from_secs(unsafe { clock::NOW })
}

fn key_byte() -> u8 {
    let b: u8 = kani::any();
    kani::assume(b == b'a' || b == b'b' || b == b'c');
    b
}
fn host() -> usize {
    let h: usize = kani::any();
    kani::assume(h < 2);
    h
}
fn mime() -> MimeType {
    if kani::any() { MimeType::TextHtml } else { MimeType::TextCss }
}
fn same_mime(a: MimeType, b: MimeType) -> bool {
    matches!((a, b), (MimeType::TextHtml, MimeType::TextHtml) | (MimeType::TextCss, MimeType::TextCss))
}
fn route_str(b: &[u8; 1]) -> &str {
    unsafe { std::str::from_utf8_unchecked(b) }
}

/// An arbitrary well-formed cache with POP entries of sizes S0, S1: keys pairwise distinct, cache_size = sum of sizes <= limit,
/// entry ages arbitrary but not in the future (the clock is monotone: assumed). Entry contents symbolic.
struct Pre<const S0: usize, const S1: usize> {
    k: [[u8; 1]; 2],
    h: [usize; 2],
    t: [u64; 2],
    m: [MimeType; 2],
    d0: [u8; S0],
    d1: [u8; S1],
}
/// The code only compares keys for equality, so the two stored keys are fixed representatives of the three ways two
/// keys can differ (KP = 0: path differs, 1: host differs, 2: both differ); the key of the operation stays symbolic
/// over 3 paths x 2 hosts and so covers "equals entry 0", "equals entry 1", "shares only the path / only the host", "fresh".
fn arbitrary_cache<const S0: usize, const S1: usize, const POP: usize, const LIMIT: usize>(time_limit: u64) -> (Cache, Pre<S0, S1>) {
    arbitrary_cache_kp::<S0, S1, POP, LIMIT>(time_limit, kani::any())
}
fn arbitrary_cache_kp<const S0: usize, const S1: usize, const POP: usize, const LIMIT: usize>(time_limit: u64, kp: u8) -> (Cache, Pre<S0, S1>) {
    kani::assume(kp < 3);
    let now: u64 = kani::any();
    kani::assume(now < (1u64 << 40));
    unsafe { clock::NOW = now; }
    let pre = Pre::<S0, S1> {
        k: [[b'a'], [if kp == 1 { b'a' } else { b'b' }]],
        h: [0, if kp == 0 { 0 } else { 1 }],
        t: [kani::any(), kani::any()],
        m: [mime(), mime()],
        d0: kani::any(),
        d1: kani::any(),
    };
    kani::assume(pre.t[0] <= now && pre.t[1] <= now && pre.t[0] <= pre.t[1]);
    // capacity for the states explored, so that std's ring-buffer growth (not Humphrey code) stays out of the query
    let mut data: VecDeque<CachedItem> = VecDeque::with_capacity(4);
    let mut size = 0;
    if POP >= 1 {
        data.push_back(CachedItem { route: route_str(&pre.k[0]).to_string(), host: pre.h[0], mime_type: pre.m[0], cache_time: pre.t[0], data: pre.d0.to_vec() });
        size += S0;
    }
    if POP >= 2 {
        kani::assume(pre.k[0] != pre.k[1] || pre.h[0] != pre.h[1]);
        data.push_back(CachedItem { route: route_str(&pre.k[1]).to_string(), host: pre.h[1], mime_type: pre.m[1], cache_time: pre.t[1], data: pre.d1.to_vec() });
        size += S1;
    }
    assert!(size <= LIMIT, "grid point is well-formed");
    (Cache { cache_limit: LIMIT, cache_time_limit: time_limit, cache_size: size, data }, pre)
}

fn wf(c: &Cache) -> bool {
    let mut sum = 0;
    let mut i = 0;
    while i < c.data.len() {
        sum += c.data[i].data.len();
        let mut j = i + 1;
        while j < c.data.len() {
            if c.data[i].route == c.data[j].route && c.data[i].host == c.data[j].host { return false; }
            j += 1;
        }
        i += 1;
    }
    sum == c.cache_size && c.cache_size <= c.cache_limit
}

/// set(k, h, v, m) from an arbitrary well-formed state with v.len() <= limit (the guard in inner_file_handler).
pub fn set_contract<const S0: usize, const S1: usize, const POP: usize, const N: usize, const LIMIT: usize>() {
    set_contract_rel::<S0, S1, POP, N, LIMIT>(9)
}
/// rel: 0 = the key of entry 0, 1 = the key of entry 1, 2 = a fresh key, 9 = any key (symbolic)
pub fn set_contract_rel<const S0: usize, const S1: usize, const POP: usize, const N: usize, const LIMIT: usize>(rel: u8) {
    let time_limit: u64 = kani::any();
    let (mut c, pre) = arbitrary_cache::<S0, S1, POP, LIMIT>(time_limit);
    let kb = [if rel == 9 { key_byte() } else if rel == 2 { b'c' } else { pre.k[rel as usize][0] }];
    let h = if rel == 9 { host() } else if rel == 2 { 0 } else { pre.h[rel as usize] };
    let v: [u8; N] = kani::any();
    let mt = mime();
    assert!(N <= LIMIT);
    c.set(route_str(&kb), h, v.to_vec(), mt);

    assert!(wf(&c), "representation invariant: distinct keys, cache_size = total size of entries <= limit");
    // the stored item is retrievable immediately, with exactly these bytes and this MIME type
    match c.get(route_str(&kb), h) {
        Some(item) => {
            assert!(item.data.len() == N, "stored item comes back with its length");
            if N > 0 {
                let j: usize = kani::any();
                kani::assume(j < N);
                assert!(item.data[j] == v[j], "stored item comes back with exactly its bytes");
            }
            assert!(same_mime(item.mime_type, mt), "stored item comes back with its MIME type");
        }
        None => assert!(false, "an item no larger than the limit is retrievable immediately after being stored"),
    }
    // every OTHER key: either evicted or exactly its old entry (never another entry's data), FIFO order kept
    let sizes = [S0, S1];
    let mut survivors = 0;
    let mut first_survivor = usize::MAX;
    let mut i = 0;
    while i < POP {
        let same_key = pre.k[i] == kb && pre.h[i] == h;
        if !same_key {
            let before_now = unsafe { clock::NOW };
            let _ = before_now;
            // look it up among the raw entries (get() also applies the staleness filter, checked separately)
            let mut found = usize::MAX;
            let mut p = 0;
            while p < c.data.len() {
                if c.data[p].route.as_bytes() == &pre.k[i][..] && c.data[p].host == pre.h[i] { found = p; }
                p += 1;
            }
            if found != usize::MAX {
                let e = &c.data[found];
                assert!(e.data.len() == sizes[i] && e.cache_time == pre.t[i] && same_mime(e.mime_type, pre.m[i]), "an untouched key keeps its own entry");
                if i == 0 && S0 > 0 { let j: usize = kani::any(); kani::assume(j < S0); assert!(e.data[j] == pre.d0[j], "an untouched key keeps its own bytes"); }
                if i == 1 && S1 > 0 { let j: usize = kani::any(); kani::assume(j < S1); assert!(e.data[j] == pre.d1[j], "an untouched key keeps its own bytes"); }
                survivors += 1;
                if first_survivor == usize::MAX { first_survivor = i; }
            } else {
                // evicted: only allowed from the front (FIFO): a later entry may survive an earlier one, never the reverse
                assert!(first_survivor == usize::MAX, "eviction removes the oldest entries first");
            }
        }
        i += 1;
    }
    assert!(c.data.len() == survivors + 1, "the cache holds the survivors and the new item, nothing else");
    kani::cover!(true, "set contract harness ran to its end");
}

/// get(k, h) on an arbitrary well-formed state: nothing, or exactly the entry stored under (k, h), not older than the limit.
pub fn get_contract<const S0: usize, const S1: usize, const POP: usize, const LIMIT: usize>() {
    let time_limit: u64 = kani::any();
    let (c, pre) = arbitrary_cache::<S0, S1, POP, LIMIT>(time_limit);
    let kb = [key_byte()];
    let h = host();
    let now = unsafe { clock::NOW };
    let r = c.get(route_str(&kb), h);
    let mut idx = usize::MAX;
    let mut i = 0;
    while i < POP {
        if pre.k[i] == kb && pre.h[i] == h { idx = i; }
        i += 1;
    }
    match r {
        None => assert!(idx == usize::MAX || now - pre.t[idx] > time_limit, "a fresh entry for the key is found"),
        Some(item) => {
            assert!(idx != usize::MAX, "nothing is returned for a key that was never stored");
            assert!(item.route.as_bytes() == &kb[..] && item.host == h, "the entry returned is the one stored under exactly this (path, host)");
            assert!(now - item.cache_time <= time_limit, "never data older than the configured time limit");
            assert!(item.cache_time == pre.t[idx], "it is that key's entry");
            if idx == 0 && S0 > 0 { let j: usize = kani::any(); kani::assume(j < S0); assert!(item.data.len() == S0 && item.data[j] == pre.d0[j], "with that key's bytes"); }
            if idx == 1 && S1 > 0 { let j: usize = kani::any(); kani::assume(j < S1); assert!(item.data.len() == S1 && item.data[j] == pre.d1[j], "with that key's bytes"); }
            assert!(same_mime(item.mime_type, pre.m[idx]), "and MIME type");
        }
    }
    assert!(wf(&c), "lookup changes nothing");
    kani::cover!(r.is_some() || POP == 0, "a hit is possible");
}

macro_rules! setc {
    ($name:ident, $s0:expr, $s1:expr, $pop:expr, $n:expr, $limit:expr) => {
        #[kani::proof]
        #[kani::unwind(6)]
        #[kani::stub(std::time::SystemTime::now, stub_now)]
        pub fn $name() { set_contract::<$s0, $s1, $pop, $n, $limit>(); }
    };
}
macro_rules! setr {
    ($name:ident, $s0:expr, $s1:expr, $pop:expr, $n:expr, $limit:expr, $rel:expr) => {
        #[kani::proof]
        #[kani::unwind(6)]
        #[kani::stub(std::time::SystemTime::now, stub_now)]
        pub fn $name() { set_contract_rel::<$s0, $s1, $pop, $n, $limit>($rel); }
    };
}
macro_rules! getc {
    ($name:ident, $s0:expr, $s1:expr, $pop:expr, $limit:expr) => {
        #[kani::proof]
        #[kani::unwind(6)]
        #[kani::stub(std::time::SystemTime::now, stub_now)]
        pub fn $name() { get_contract::<$s0, $s1, $pop, $limit>(); }
    };
}
// BEGIN GENERATED c16 grid
getc!(c16_get_pop0, 0, 0, 0, 4);
getc!(c16_get_pop1_s3, 3, 0, 1, 4);
getc!(c16_get_pop1_s0, 0, 0, 1, 0);
getc!(c16_get_pop2_s1_s3, 1, 3, 2, 4);
getc!(c16_get_pop2_s0_s2, 0, 2, 2, 6);
setc!(c16_set_empty_n0_l0, 0, 0, 0, 0, 0);
setc!(c16_set_empty_n3_l3, 0, 0, 0, 3, 3);
setc!(c16_set_empty_n1_l6, 0, 0, 0, 1, 6);
setc!(c16_set_pop1_evict_n1_l1, 1, 0, 1, 1, 1);
setc!(c16_set_pop1_evict_n2_l4, 3, 0, 1, 2, 4);
// END GENERATED c16 grid

#[cfg(test)]
mod playback {
    include!(concat!(env!("HUMPHREY_VERIF"), "/build/playback/in_server_playback.rs"));
}
