// Kani harnesses compiled inside humphrey_server::server::static (blacklist_check, cache_check, ... are private here).
// C19: a listed address never receives content from file / directory / redirect routes.

use super::{blacklist_check, directory_handler, file_handler, redirect_handler};
use crate::config::{BlacklistConfig, BlacklistMode, Config};
use crate::server::server::AppState;
use humphrey::http::address::Address;
use humphrey::http::headers::Headers;
use humphrey::http::method::Method;
use humphrey::http::{Request, Response, StatusCode};
use humphrey::route::LocatedPath;
use std::net::{IpAddr, Ipv4Addr, Ipv6Addr};
use std::sync::Arc;

/// ghost: did the handler touch content (cache lookup, file system) ?
pub struct Gh { pub cache_looked_up: bool, pub file_read: bool, pub path_searched: bool }
pub static mut GH: Gh = Gh { cache_looked_up: false, file_read: false, path_searched: false };
pub fn gh() -> &'static mut Gh { unsafe { &mut *std::ptr::addr_of_mut!(GH) } }

pub fn stub_cache_check(_r: &Request, _s: Arc<AppState>, _h: usize) -> Option<Response> { gh().cache_looked_up = true; None }
pub fn stub_inner_file_handler(_r: Request, _s: Arc<AppState>, _p: std::path::PathBuf, _h: usize) -> Response { gh().file_read = true; Response::empty(StatusCode::OK) }
pub fn stub_try_find_path(_d: &str, _p: &str, _i: &[&str]) -> Option<LocatedPath> { gh().path_searched = true; None }
pub fn stub_format(_args: std::fmt::Arguments<'_>) -> String { String::new() }
pub fn stub_log<T: AsRef<str>>(_l: &crate::server::logger::Logger, _m: T) {}

/// candidate addresses: A (the listed one), B (unlisted IPv4), C (unlisted IPv6)
fn addr(k: u8) -> IpAddr {
    match k { 0 => IpAddr::V4(Ipv4Addr::new(127, 0, 0, 1)), 1 => IpAddr::V4(Ipv4Addr::new(10, 1, 2, 3)), _ => IpAddr::V6(Ipv6Addr::new(0, 0, 0, 0, 0, 0, 0, 1)) }
}

/// The blacklist holds exactly the address A (plus, when `two`, the unrelated IPv6 address D) -- list *membership* is
/// what matters to the code (`Vec::contains`), so one listed and several unlisted candidates cover it; the client is
/// arbitrary over the candidates: `peer` is the address the connection comes from, `origin` what the request claims
/// through X-Forwarded-For (None = no such header). Mode and cache on/off are fixed per harness (const generics keep
/// the CBMC query small: a fully symbolic scenario did not finish).
pub struct Scn { pub listed: [bool; 3], pub peer: u8, pub origin: Option<u8>, pub state: Arc<AppState>, pub request: Request }
pub fn scenario_cfg(forbidden: bool, cache_on: bool, forwarded: bool, two: bool) -> Scn {
    let listed = [true, false, false];
    let mut list: Vec<IpAddr> = Vec::with_capacity(2);
    if two { list.push(IpAddr::V6(Ipv6Addr::new(0, 0, 0, 0, 0, 0, 0, 9))); }
    list.push(addr(0));
    let mode = if forbidden { BlacklistMode::Forbidden } else { BlacklistMode::Block };
    let config = Config {
        source: crate::config::ConfigSource::Default,
        address: String::new(),
        port: 0,
        threads: 1,
        default_websocket_proxy: None,
        hosts: Vec::new(),
        default_host: crate::config::HostConfig { matches: String::new(), routes: Vec::new() },
        logging: crate::config::LoggingConfig { level: crate::server::logger::LogLevel::Error, console: false, file: None },
        cache: crate::config::CacheConfig { size_limit: if cache_on { 4 } else { 0 }, time_limit: 1 },
        blacklist: BlacklistConfig { list, mode },
        connection_timeout: None,
    };
    let state = Arc::new(AppState { config, cache: std::sync::RwLock::new(crate::server::cache::Cache::default()), logger: crate::server::logger::Logger::default() });
    let peer: u8 = kani::any();
    kani::assume(peer < 3);
    let ok: u8 = kani::any();
    kani::assume(ok < 3);
    // this is what Address::from_headers produces: with X-Forwarded-For the last entry is the origin and the peer is
    // appended to `proxies`; without it the peer is the origin
    let address = if forwarded {
        let mut proxies = Vec::with_capacity(1);
        proxies.push(addr(peer));
        Address { origin_addr: addr(ok), proxies, port: 4000 }
    } else {
        Address { origin_addr: addr(peer), proxies: Vec::new(), port: 4000 }
    };
    let request = Request { method: Method::Get, uri: "/x".to_string(), query: String::new(), version: String::new(), headers: Headers::new(), content: None, address };
    Scn { listed, peer, origin: if forwarded { Some(ok) } else { None }, state, request }
}
pub fn scenario() -> Scn { scenario_cfg(true, true, true, false) }
fn must_refuse(s: &Scn) -> bool {
    s.listed[s.peer as usize] || match s.origin { Some(o) => s.listed[o as usize], None => false }
}
fn is_403(r: &Response) -> bool { r.status_code == StatusCode::Forbidden }
/// the Arc<AppState> is leaked at the end of each harness: its drop glue is not part of any obligation
fn done(state: Arc<AppState>) { std::mem::forget(state); }

macro_rules! h {
    ($name:ident, $body:block) => {
        #[kani::proof]
        #[kani::unwind(6)]
        #[kani::stub(super::cache_check, stub_cache_check)]
        #[kani::stub(super::inner_file_handler, stub_inner_file_handler)]
        #[kani::stub(humphrey::route::try_find_path, stub_try_find_path)]
        #[kani::stub(alloc::fmt::format, stub_format)]
        #[kani::stub(crate::server::logger::Logger::warn, stub_log)]
        #[kani::stub(crate::server::logger::Logger::info, stub_log)]
        pub fn $name() $body
    };
}

h!(c19_blacklist_check_fwd, { blacklist_check_contract(true, true, false); });
h!(c19_blacklist_check_direct, { blacklist_check_contract(false, false, true); });
fn blacklist_check_contract(forwarded: bool, forbidden: bool, two: bool) {
    let s = scenario_cfg(forbidden, true, forwarded, two);
    let r = blacklist_check(&s.request, s.state.clone());
    if must_refuse(&s) {
        assert!(matches!(&r, Some(resp) if is_403(resp)), "a listed client address (its own or the one it is forwarded for) is answered 403, whatever X-Forwarded-For says");
    } else {
        assert!(r.is_none(), "clients whose own and forwarded addresses are all unlisted pass the check");
    }
    kani::cover!(r.is_some(), "a refusal is reachable");
    kani::cover!(r.is_none(), "a pass is reachable");
    done(s.state);
}

// Handler-level obligations (file / directory / redirect handlers consult the check first and return its refusal) were
// written both directly and modularly (blacklist_check stubbed by its contract); CBMC runs out of memory on either form
// (exit 6 / solver error after 400-800 s), so they are not part of the check -- see DESIGN.md section 4 C19.
