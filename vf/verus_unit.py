"""Run one Verus unit: generate from /repo, verify, classify."""
import json
import os
import re
import subprocess
import time

from . import splice

VERIF = os.path.dirname(os.path.dirname(os.path.abspath(__file__)))
BUILD = os.path.join(VERIF, "build")

OBLIGATION_MSGS = (
    "postcondition not satisfied",
    "invariant not satisfied",
    "precondition not satisfied",
    "assertion failed",
    "possible arithmetic underflow/overflow",
    "possible division by zero",
    "decreases not satisfied",
    "could not prove termination",
    "loop invariant not satisfied",
    "possible bit shift underflow/overflow",
    "recommendation not met",
    "unable to prove assertion safety condition",
    "unreachable",
    "cannot show invariant holds",
    "failed to prove",
    "could not show termination",
    "unable to prove post-condition of closure",
    "unable to prove pre-condition of closure",
)


class UnitResult:
    def __init__(self, unit):
        self.unit = unit
        self.status = "undecided"       # ok | failed | undecided
        self.reason = ""
        self.functions = []             # dicts: name, mode, success, ms, rlimit
        self.failures = []              # dicts: obligation, function, kind, gen_line, repo_file, repo_line, rendered
        self.items = []
        self.rewrites = []
        self.assumed = []               # trusted-base scan
        self.smt_ms = 0
        self.wall_s = 0.0
        self.cmd = ""
        self.raw = ""
        self.gen_path = ""
        self.verified = 0
        self.errors = 0

    def exec_functions(self):
        return [f for f in self.functions if f["mode"] == "exec"]


def scan_trusted(text):
    out = []
    lines = text.split("\n")
    for i, ln in enumerate(lines, 1):
        s = ln.strip()
        if s.startswith("//"): continue
        for kw in ("assume_specification", "external_body", "external_type_specification",
                   "external_trait_specification", "admit(", "assume(", "uninterp spec fn", "axiom fn", "external_fn_specification",
                   "verifier::external]"):
            if kw in s:
                shown = s
                if s.startswith("#[") and s.endswith("]"):
                    # an attribute on its own line: show the item it is attached to
                    nxt = [l.strip() for l in lines[i:i + 3] if l.strip() and not l.strip().startswith("#[")]
                    if nxt: shown = s + " " + nxt[0]
                out.append("%s @gen:%d: %s" % (kw.rstrip("(]"), i, shown[:200]))
                break
    return out


def _fn_at_line(text, line):
    """Name of the innermost fn declared at or above `line` in the generated file (cheap scan)."""
    lines = text.split("\n")
    for k in range(min(line, len(lines)) - 1, -1, -1):
        m = re.search(r"\bfn\s+([A-Za-z_][A-Za-z0-9_]*)", lines[k])
        if m and not lines[k].strip().startswith("//"):
            return m.group(1)
    return "?"


def run_unit(repo, unit, seed=None, rlimit=None, extra_args=(), timeout=600):
    res = UnitResult(unit)
    t0 = time.time()
    vrs = os.path.join(VERIF, "contracts", unit + ".vrs")
    os.makedirs(os.path.join(BUILD, "verus"), exist_ok=True)
    try:
        text, linemap, gen = splice.generate(repo, vrs)
    except splice.LostAnchor as e:
        res.reason = "lost anchor / missing item: %s" % e
        res.wall_s = time.time() - t0
        return res
    res.items, res.rewrites = gen.items, gen.rewrites
    res.assumed = scan_trusted(text)
    suffix = "" if seed is None else "_s%d" % seed
    gen_path = os.path.join(BUILD, "verus", unit + suffix + ".rs")
    open(gen_path, "w", encoding="utf-8").write(text)
    res.gen_path = gen_path
    cmd = ["verus", gen_path, "--output-json", "--time", "--error-format=json", "--multiple-errors", "20"]
    if seed is not None:
        cmd += ["--smt-option", "smt.random_seed=%d" % seed]
    if rlimit is None and "rlimit" in gen.options:
        rlimit = int(gen.options["rlimit"])
    if rlimit is not None:
        cmd += ["--rlimit", str(rlimit)]
    cmd += list(extra_args)
    res.cmd = " ".join(cmd)
    try:
        p = subprocess.run(cmd, capture_output=True, text=True, timeout=timeout, cwd=os.path.join(BUILD, "verus"))
    except subprocess.TimeoutExpired:
        res.reason = "verus timeout after %ds" % timeout
        res.wall_s = time.time() - t0
        return res
    res.raw = p.stdout[-20000:] + "\n--- stderr ---\n" + p.stderr[-60000:]
    res.wall_s = time.time() - t0
    try:
        j = json.loads(p.stdout)
    except ValueError:
        res.reason = "verus produced no JSON (rc=%s): %s" % (p.returncode, p.stderr[-400:])
        return res
    vr = j.get("verification-results", {})
    res.verified, res.errors = vr.get("verified", 0), vr.get("errors", 0)
    tm = j.get("times-ms", {})
    res.smt_ms = tm.get("smt", {}).get("total", 0)
    for mod in tm.get("smt", {}).get("smt-run-module-times", []):
        for f in mod.get("function-breakdown", []):
            res.functions.append(dict(name=f["function"].split("::", 1)[-1], mode=f.get("mode:", f.get("mode", "?")),
                                      success=f.get("success", False), ms=f.get("time", 0), rlimit=f.get("rlimit", 0)))
    # diagnostics
    diags = []
    for ln in p.stderr.split("\n"):
        ln = ln.strip()
        if not ln.startswith("{"): continue
        try: d = json.loads(ln)
        except ValueError: continue
        if d.get("$message_type") == "diagnostic": diags.append(d)
    hard = []
    canary_failed = False
    for d in diags:
        if d.get("level") != "error": continue
        msg = d.get("message", "")
        if msg.startswith("aborting due to"): continue
        spans = d.get("spans", [])
        prim = [s for s in spans if s.get("is_primary")] or spans
        gl = prim[0]["line_start"] if prim else 0
        # the location inside the extracted function (non-primary span = "at this exit"/call site)
        locs = [s["line_start"] for s in spans]
        fn = _fn_at_line(text, max(locs) if locs else gl)
        # a failing postcondition's primary span is the ensures clause; the function is the one whose
        # signature precedes it
        fn2 = _fn_at_line(text, gl)
        if any(msg.startswith(m) or m in msg for m in OBLIGATION_MSGS):
            if fn2 == "vf_canary" or fn == "vf_canary":
                canary_failed = True
                continue
            rf, rl = None, None
            for l in sorted(locs, reverse=True):
                if l in linemap:
                    rf, rl = linemap[l]; break
            if rf is None and locs:
                # failing ghost text: report the nearest preceding repository line
                for l in range(max(locs), 0, -1):
                    if l in linemap:
                        rf, rl = linemap[l]; break
            kind = re.sub(r"[^a-z]+", "-", msg.lower()).strip("-")[:48]
            res.failures.append(dict(function=fn2 if fn2 != "?" else fn, kind=kind, message=msg, gen_line=gl,
                                     repo_file=rf, repo_line=rl, rendered=d.get("rendered", "")[:3000]))
        elif "rlimit" in msg.lower() or "resource limit" in msg.lower() or "timed out" in msg.lower():
            hard.append("resource: " + msg)
        else:
            hard.append("rustc/verus error: %s @gen:%d" % (msg[:300], gl))
    if hard:
        res.status = "undecided"
        res.reason = "; ".join(hard[:4])
        return res
    if vr.get("encountered-vir-error"):
        res.reason = "verus VIR error"
        return res
    if not canary_failed:
        res.reason = "vacuity canary `ensures false` verified: assumed specs are contradictory (or canary missing)"
        return res
    if res.failures:
        res.status = "failed"
        for f in res.failures:
            loc = "%s:%s" % (f["repo_file"], f["repo_line"]) if f["repo_file"] else "gen:%d" % f["gen_line"]
            f["obligation"] = "%s::%s::%s@%s" % (unit, f["function"], f["kind"], loc)
        return res
    if res.errors != 1:
        res.reason = "unexpected error count %d with no classified failure" % res.errors
        return res
    if res.verified < 1:
        res.reason = "zero functions verified"
        return res
    res.status = "ok"
    return res
