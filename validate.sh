#!/bin/sh
# dev helper: validate MANIFEST.json and evidence/*.json against the schemas (uses the tooling venv's jsonschema)
cd /verif
python3-vt - <<'PY'
import json,jsonschema,glob
jsonschema.validate(json.load(open('MANIFEST.json')),json.load(open('/root/.vp/MANIFEST.schema.json'))); print('manifest ok')
for f in sorted(glob.glob('evidence/*.json')):
    jsonschema.validate(json.load(open(f)),json.load(open('/root/.vp/EVIDENCE.schema.json'))); print(f,'ok')
PY
