// Kani harnesses compiled inside humphrey::app (see DESIGN.md 2.2). Included only under cfg(kani).

pub mod c05 {
    use crate::krauss::wildcard_match;

    /// Executable transcription of the spec function `glob` of contracts/c05_krauss.vrs.
    fn glob(p: &[u8], t: &[u8]) -> bool {
        if p.is_empty() {
            t.is_empty()
        } else if p[0] == b'*' {
            glob(&p[1..], t) || (!t.is_empty() && glob(p, &t[1..]))
        } else {
            !t.is_empty() && p[0] == t[0] && glob(&p[1..], &t[1..])
        }
    }

    fn sym<const N: usize>(alpha: &[u8]) -> [u8; N] {
        let mut a = [0u8; N];
        let mut i = 0;
        while i < N {
            let k: usize = kani::any();
            kani::assume(k < alpha.len());
            a[i] = alpha[k];
            i += 1;
        }
        a
    }

    fn witness<const W: usize, const T: usize>() {
        let w: [u8; W] = sym(b"*ab");
        let t: [u8; T] = sym(b"ab*");
        let ws = unsafe { std::str::from_utf8_unchecked(&w) };
        let ts = unsafe { std::str::from_utf8_unchecked(&t) };
        let r = wildcard_match(ws, ts);
        assert!(r == glob(&w, &t), "wildcard_match(wild, tame) == glob(wild, tame)");
    }

    macro_rules! wit {
        ($name:ident, $w:expr, $t:expr, $u:expr) => {
            #[kani::proof]
            #[kani::unwind($u)]
            pub fn $name() {
                witness::<$w, $t>();
            }
        };
    }
    // unwinding bound = W + T + 2 loop iterations (unwinding assertions on: a matcher that needs more is reported undecided);
    // a generous bound such as 12 makes even the 1x2 instance run for more than 15 minutes (measured)
    wit!(c05_witness_1x2, 1, 2, 5);
    wit!(c05_witness_2x2, 2, 2, 6);
    wit!(c05_witness_2x3, 2, 3, 7);
    wit!(c05_witness_3x3, 3, 3, 8);
    wit!(c05_witness_4x4, 4, 4, 10);
}

/// Harnesses used only by `./selftest-kani` to pin down how the runner classifies Kani outcomes.
pub mod vfself {
    #[kani::proof]
    pub fn vfself_pass() {
        let x: u8 = kani::any();
        kani::cover!(x == 3, "x can be 3");
        assert!(x as u16 + 1 > 0);
    }
    #[kani::proof]
    pub fn vfself_fail() {
        let x: u8 = kani::any();
        assert!(x != 77, "x is never 77");
    }
    #[kani::proof]
    pub fn vfself_uncovered() {
        let x: u8 = kani::any();
        kani::assume(x < 5);
        kani::cover!(x == 9, "x can be 9");
    }
    #[kani::proof]
    #[kani::unwind(3)]
    pub fn vfself_unwind() {
        let n: u8 = kani::any();
        let mut i = 0u8;
        while i < n { i += 1; }
        assert!(i == n);
    }
    #[kani::proof]
    pub fn vfself_slow() {
        let a: u64 = kani::any();
        let b: u64 = kani::any();
        let c: u64 = kani::any();
        kani::assume(a > 1 && b > 1 && c > 1);
        assert!(a.wrapping_mul(b).wrapping_mul(c) != 0xdead_beef_1234_5677);
    }
}

/// Kani-generated concrete playback tests are written to build/playback/ by the runner and executed
/// natively (`cargo kani playback`) against the real crate: the replay step of DESIGN 2.3.
#[cfg(test)]
mod playback {
    include!(concat!(env!("HUMPHREY_VERIF"), "/build/playback/in_app_playback.rs"));
}

pub mod c07 {
    use crate::http::headers::HeaderType;
    use crate::http::StatusCode;
    use std::convert::TryFrom;

    /// (code, reason phrases registered for it: RFC 2616 / RFC 7231 / RFC 9110 wording) -- written from the RFCs,
    /// not from status.rs. Humphrey models exactly these 39 codes.
    const REGISTRY: [(u16, &[&str]); 39] = [
        (100, &["Continue"]),
        (101, &["Switching Protocols"]),
        (200, &["OK"]),
        (201, &["Created"]),
        (202, &["Accepted"]),
        (203, &["Non-Authoritative Information"]),
        (204, &["No Content"]),
        (205, &["Reset Content"]),
        (206, &["Partial Content"]),
        (300, &["Multiple Choices"]),
        (301, &["Moved Permanently"]),
        (302, &["Found"]),
        (303, &["See Other"]),
        (304, &["Not Modified"]),
        (305, &["Use Proxy"]),
        (307, &["Temporary Redirect"]),
        (400, &["Bad Request"]),
        (401, &["Unauthorized"]),
        (403, &["Forbidden"]),
        (404, &["Not Found"]),
        (405, &["Method Not Allowed"]),
        (406, &["Not Acceptable"]),
        (407, &["Proxy Authentication Required"]),
        (408, &["Request Timeout", "Request Time-out"]),
        (409, &["Conflict"]),
        (410, &["Gone"]),
        (411, &["Length Required"]),
        (412, &["Precondition Failed"]),
        (413, &["Request Entity Too Large", "Payload Too Large", "Content Too Large"]),
        (414, &["Request-URI Too Long", "Request-URI Too Large", "URI Too Long"]),
        (415, &["Unsupported Media Type"]),
        (416, &["Requested Range Not Satisfiable", "Requested range not satisfiable", "Range Not Satisfiable"]),
        (417, &["Expectation Failed"]),
        (500, &["Internal Server Error"]),
        (501, &["Not Implemented"]),
        (502, &["Bad Gateway"]),
        (503, &["Service Unavailable"]),
        (504, &["Gateway Timeout", "Gateway Time-out"]),
        (505, &["HTTP Version Not Supported", "HTTP Version not supported"]),
    ];

    fn modelled(c: u16) -> bool {
        matches!(c, 100 | 101 | 200..=206 | 300..=305 | 307 | 400 | 401 | 403..=417 | 500..=505)
    }

    /// For all 65 536 codes: try_from accepts exactly the modelled codes, and converting back gives the same number.
    #[kani::proof]
    pub fn c07_status_code_u16_complete() {
        let c: u16 = kani::any();
        match StatusCode::try_from(c) {
            Ok(v) => {
                assert!(modelled(c), "only registered, modelled codes are accepted");
                assert!(u16::from(v) == c, "code -> variant -> code is the identity");
                assert!(matches!(StatusCode::try_from(u16::from(v)), Ok(w) if w == v), "variant -> code -> variant is the identity");
            }
            Err(_) => assert!(!modelled(c), "every modelled code is accepted"),
        }
        kani::cover!(c == 505, "505 reachable");
    }

    /// Reason phrase of every modelled code is a phrase registered for that code.
    #[kani::proof]
    #[kani::unwind(41)]
    pub fn c07_reason_phrases_registered() {
        let mut n = 0;
        for (code, phrases) in REGISTRY.iter() {
            let v = match StatusCode::try_from(*code) {
                Ok(v) => v,
                Err(_) => {
                    assert!(false, "registry code is modelled");
                    return;
                }
            };
            let s: &str = v.into();
            let mut ok = false;
            for p in phrases.iter() {
                if s == *p {
                    ok = true;
                }
            }
            assert!(ok, "reason phrase is the registered one for its code");
            n += 1;
        }
        assert!(n == 39);
    }

    /// HeaderType::from(name in any ASCII case mix) is the named variant and to_string gives back the canonical name.
    fn header_case_insensitive<const N: usize>(canon: &str, expect: HeaderType) {
        assert!(canon.len() == N);
        let mut b = [0u8; N];
        b.copy_from_slice(canon.as_bytes());
        let mut i = 0;
        while i < N {
            let flip: bool = kani::any();
            if flip && b[i].is_ascii_alphabetic() {
                b[i] ^= 0x20;
            }
            i += 1;
        }
        let s = unsafe { std::str::from_utf8_unchecked(&b) };
        let h = HeaderType::from(s);
        assert!(h == expect, "header name is matched case-insensitively");
        assert!(h.to_string() == canon, "canonical spelling round-trips");
    }
    #[kani::proof]
    #[kani::unwind(8)]
    pub fn c07_header_accept() {
        header_case_insensitive::<6>("Accept", HeaderType::Accept);
    }
    #[kani::proof]
    #[kani::unwind(16)]
    pub fn c07_header_accept_charset() {
        header_case_insensitive::<14>("Accept-Charset", HeaderType::AcceptCharset);
    }
    #[kani::proof]
    #[kani::unwind(17)]
    pub fn c07_header_accept_encoding() {
        header_case_insensitive::<15>("Accept-Encoding", HeaderType::AcceptEncoding);
    }
    #[kani::proof]
    #[kani::unwind(17)]
    pub fn c07_header_accept_language() {
        header_case_insensitive::<15>("Accept-Language", HeaderType::AcceptLanguage);
    }
    #[kani::proof]
    #[kani::unwind(31)]
    pub fn c07_header_access_control_request_method() {
        header_case_insensitive::<29>("Access-Control-Request-Method", HeaderType::AccessControlRequestMethod);
    }
    #[kani::proof]
    #[kani::unwind(32)]
    pub fn c07_header_access_control_request_headers() {
        header_case_insensitive::<30>("Access-Control-Request-Headers", HeaderType::AccessControlRequestHeaders);
    }
    #[kani::proof]
    #[kani::unwind(15)]
    pub fn c07_header_authorization() {
        header_case_insensitive::<13>("Authorization", HeaderType::Authorization);
    }
    #[kani::proof]
    #[kani::unwind(15)]
    pub fn c07_header_cache_control() {
        header_case_insensitive::<13>("Cache-Control", HeaderType::CacheControl);
    }
    #[kani::proof]
    #[kani::unwind(12)]
    pub fn c07_header_connection() {
        header_case_insensitive::<10>("Connection", HeaderType::Connection);
    }
    #[kani::proof]
    #[kani::unwind(18)]
    pub fn c07_header_content_encoding() {
        header_case_insensitive::<16>("Content-Encoding", HeaderType::ContentEncoding);
    }
    #[kani::proof]
    #[kani::unwind(16)]
    pub fn c07_header_content_length() {
        header_case_insensitive::<14>("Content-Length", HeaderType::ContentLength);
    }
    #[kani::proof]
    #[kani::unwind(14)]
    pub fn c07_header_content_type() {
        header_case_insensitive::<12>("Content-Type", HeaderType::ContentType);
    }
    #[kani::proof]
    #[kani::unwind(8)]
    pub fn c07_header_cookie() {
        header_case_insensitive::<6>("Cookie", HeaderType::Cookie);
    }
    #[kani::proof]
    #[kani::unwind(6)]
    pub fn c07_header_date() {
        header_case_insensitive::<4>("Date", HeaderType::Date);
    }
    #[kani::proof]
    #[kani::unwind(8)]
    pub fn c07_header_expect() {
        header_case_insensitive::<6>("Expect", HeaderType::Expect);
    }
    #[kani::proof]
    #[kani::unwind(11)]
    pub fn c07_header_forwarded() {
        header_case_insensitive::<9>("Forwarded", HeaderType::Forwarded);
    }
    #[kani::proof]
    #[kani::unwind(6)]
    pub fn c07_header_from() {
        header_case_insensitive::<4>("From", HeaderType::From);
    }
    #[kani::proof]
    #[kani::unwind(6)]
    pub fn c07_header_host() {
        header_case_insensitive::<4>("Host", HeaderType::Host);
    }
    #[kani::proof]
    #[kani::unwind(8)]
    pub fn c07_header_origin() {
        header_case_insensitive::<6>("Origin", HeaderType::Origin);
    }
    #[kani::proof]
    #[kani::unwind(8)]
    pub fn c07_header_pragma() {
        header_case_insensitive::<6>("Pragma", HeaderType::Pragma);
    }
    #[kani::proof]
    #[kani::unwind(9)]
    pub fn c07_header_referer() {
        header_case_insensitive::<7>("Referer", HeaderType::Referer);
    }
    #[kani::proof]
    #[kani::unwind(9)]
    pub fn c07_header_upgrade() {
        header_case_insensitive::<7>("Upgrade", HeaderType::Upgrade);
    }
    #[kani::proof]
    #[kani::unwind(12)]
    pub fn c07_header_user_agent() {
        header_case_insensitive::<10>("User-Agent", HeaderType::UserAgent);
    }
    #[kani::proof]
    #[kani::unwind(5)]
    pub fn c07_header_via() {
        header_case_insensitive::<3>("Via", HeaderType::Via);
    }
    #[kani::proof]
    #[kani::unwind(9)]
    pub fn c07_header_warning() {
        header_case_insensitive::<7>("Warning", HeaderType::Warning);
    }
    #[kani::proof]
    #[kani::unwind(29)]
    pub fn c07_header_access_control_allow_origin() {
        header_case_insensitive::<27>("Access-Control-Allow-Origin", HeaderType::AccessControlAllowOrigin);
    }
    #[kani::proof]
    #[kani::unwind(30)]
    pub fn c07_header_access_control_allow_headers() {
        header_case_insensitive::<28>("Access-Control-Allow-Headers", HeaderType::AccessControlAllowHeaders);
    }
    #[kani::proof]
    #[kani::unwind(30)]
    pub fn c07_header_access_control_allow_methods() {
        header_case_insensitive::<28>("Access-Control-Allow-Methods", HeaderType::AccessControlAllowMethods);
    }
    #[kani::proof]
    #[kani::unwind(5)]
    pub fn c07_header_age() {
        header_case_insensitive::<3>("Age", HeaderType::Age);
    }
    #[kani::proof]
    #[kani::unwind(7)]
    pub fn c07_header_allow() {
        header_case_insensitive::<5>("Allow", HeaderType::Allow);
    }
    #[kani::proof]
    #[kani::unwind(21)]
    pub fn c07_header_content_disposition() {
        header_case_insensitive::<19>("Content-Disposition", HeaderType::ContentDisposition);
    }
    #[kani::proof]
    #[kani::unwind(18)]
    pub fn c07_header_content_language() {
        header_case_insensitive::<16>("Content-Language", HeaderType::ContentLanguage);
    }
    #[kani::proof]
    #[kani::unwind(18)]
    pub fn c07_header_content_location() {
        header_case_insensitive::<16>("Content-Location", HeaderType::ContentLocation);
    }
    #[kani::proof]
    #[kani::unwind(6)]
    pub fn c07_header_etag() {
        header_case_insensitive::<4>("ETag", HeaderType::ETag);
    }
    #[kani::proof]
    #[kani::unwind(9)]
    pub fn c07_header_expires() {
        header_case_insensitive::<7>("Expires", HeaderType::Expires);
    }
    #[kani::proof]
    #[kani::unwind(15)]
    pub fn c07_header_last_modified() {
        header_case_insensitive::<13>("Last-Modified", HeaderType::LastModified);
    }
    #[kani::proof]
    #[kani::unwind(6)]
    pub fn c07_header_link() {
        header_case_insensitive::<4>("Link", HeaderType::Link);
    }
    #[kani::proof]
    #[kani::unwind(10)]
    pub fn c07_header_location() {
        header_case_insensitive::<8>("Location", HeaderType::Location);
    }
    #[kani::proof]
    #[kani::unwind(8)]
    pub fn c07_header_server() {
        header_case_insensitive::<6>("Server", HeaderType::Server);
    }
    #[kani::proof]
    #[kani::unwind(12)]
    pub fn c07_header_set_cookie() {
        header_case_insensitive::<10>("Set-Cookie", HeaderType::SetCookie);
    }
    #[kani::proof]
    #[kani::unwind(19)]
    pub fn c07_header_transfer_encoding() {
        header_case_insensitive::<17>("Transfer-Encoding", HeaderType::TransferEncoding);
    }
}

pub mod c09 {
    use crate::http::headers::Headers;
    use crate::http::method::Method;
    use crate::http::proxy::proxy_request;
    use crate::http::response::ResponseError;
    use crate::http::{Request, Response, StatusCode};
    use std::net::{IpAddr, Ipv4Addr, SocketAddr, TcpStream};
    use std::time::Duration;

    /// Ghost record of what proxy_request did to the upstream socket (scalars only, see kani/in_ws.rs ghost notes).
    pub struct G {
        pub connect_ok: bool,
        pub write_ok: bool,
        pub parse_ok: bool,
        pub connected: bool,
        pub written: bool,
        pub read_started: bool,
        pub read_timeout_set_before_read: bool,
        pub read_timeout_secs: u64,
        pub write_timeout_set_before_write: bool,
        pub marker: u16,
    }
    pub static mut GH: G = G { connect_ok: false, write_ok: false, parse_ok: false, connected: false, written: false, read_started: false,
        read_timeout_set_before_read: false, read_timeout_secs: 0, write_timeout_set_before_write: false, marker: 0 };
    pub fn g() -> &'static mut G { unsafe { &mut *std::ptr::addr_of_mut!(GH) } }

    pub fn stub_connect(_addr: &SocketAddr, _timeout: Duration) -> std::io::Result<TcpStream> {
        use std::os::unix::io::FromRawFd;
        if g().connect_ok {
            g().connected = true;
            Ok(unsafe { TcpStream::from_raw_fd(3) })
        } else {
            Err(std::io::Error::from(std::io::ErrorKind::ConnectionRefused))
        }
    }
    pub fn stub_write(_s: &mut TcpStream, buf: &[u8]) -> std::io::Result<usize> {
        assert!(g().connected, "write only after connect");
        if g().write_ok { g().written = true; Ok(buf.len()) } else { Err(std::io::Error::from(std::io::ErrorKind::BrokenPipe)) }
    }
    pub fn stub_set_read_timeout(_s: &TcpStream, dur: Option<Duration>) -> std::io::Result<()> {
        if let Some(d) = dur {
            if !g().read_started { g().read_timeout_set_before_read = true; g().read_timeout_secs = d.as_secs(); }
        }
        Ok(())
    }
    pub fn stub_set_write_timeout(_s: &TcpStream, dur: Option<Duration>) -> std::io::Result<()> {
        if dur.is_some() && !g().written { g().write_timeout_set_before_write = true; }
        Ok(())
    }
    /// Contract of Response::from_stream as far as proxy_request relies on it: returns Ok(any response) or Err(any error).
    /// (That it *returns* for every byte stream is C03's HTTP-parser part, which this machinery cannot decide.)
    pub fn stub_response_from_stream<T: std::io::Read>(_stream: &mut T) -> Result<Response, ResponseError> {
        // the upstream sends ONE response and then nothing more: a second read attempt sees end of stream
        if g().read_started {
            return Err(ResponseError::Stream);
        }
        g().read_started = true;
        if g().parse_ok {
            let mut r = Response::empty(StatusCode::OK);
            // a recognisable upstream response: status + body chosen by the harness
            r.status_code = match StatusCode::try_from_marker(g().marker) { Some(s) => s, None => StatusCode::OK };
            r.body = vec![(g().marker & 0xff) as u8, (g().marker >> 8) as u8];
            Ok(r)
        } else if g().marker & 1 == 0 { Err(ResponseError::Stream) } else { Err(ResponseError::Response) }
    }
    pub fn stub_format(_args: std::fmt::Arguments<'_>) -> String { String::new() }
    pub fn stub_ip_fmt(_ip: &IpAddr, _f: &mut std::fmt::Formatter<'_>) -> std::fmt::Result { Ok(()) }
    pub fn stub_close(_fd: i32) -> i32 { 0 }

    trait Marker { fn try_from_marker(m: u16) -> Option<StatusCode>; }
    impl Marker for StatusCode {
        fn try_from_marker(m: u16) -> Option<StatusCode> {
            match m % 5 { 0 => Some(StatusCode::OK), 1 => Some(StatusCode::NotFound), 2 => Some(StatusCode::InternalError), 3 => Some(StatusCode::MovedPermanently), _ => Some(StatusCode::Continue) }
        }
    }

    fn request() -> Request {
        Request {
            method: Method::Get,
            uri: String::new(),
            query: String::new(),
            version: String::new(),
            headers: Headers::new(),
            content: None,
            address: crate::http::address::Address { origin_addr: IpAddr::V4(Ipv4Addr::new(10, 0, 0, 1)), proxies: Vec::new(), port: 1 },
        }
    }

    #[kani::proof]
    #[kani::unwind(6)]
    #[kani::stub(std::net::TcpStream::connect_timeout, stub_connect)]
    #[kani::stub(<std::net::TcpStream as std::io::Write>::write, stub_write)]
    #[kani::stub(std::net::TcpStream::set_read_timeout, stub_set_read_timeout)]
    #[kani::stub(std::net::TcpStream::set_write_timeout, stub_set_write_timeout)]
    #[kani::stub(crate::http::Response::from_stream, stub_response_from_stream)]
    #[kani::stub(alloc::fmt::format, stub_format)]
    #[kani::stub(<std::net::IpAddr as std::fmt::Display>::fmt, stub_ip_fmt)]
    #[kani::stub(libc::close, stub_close)]
    pub fn c09_proxy_request_contract() {
        let gh = g();
        gh.connect_ok = kani::any();
        gh.write_ok = kani::any();
        gh.parse_ok = kani::any();
        gh.marker = kani::any();
        gh.connected = false; gh.written = false; gh.read_started = false;
        gh.read_timeout_set_before_read = false; gh.write_timeout_set_before_write = false; gh.read_timeout_secs = 0;
        let secs: u64 = kani::any();
        kani::assume(secs >= 1 && secs <= 3600);
        let req = request();
        let target = SocketAddr::new(IpAddr::V4(Ipv4Addr::new(127, 0, 0, 1)), 8080);
        let resp = proxy_request(&req, target, Duration::from_secs(secs));
        // always answers (reaching this line for every outcome is the "never panics" half, relative to the callee contracts)
        if gh.connect_ok && gh.write_ok && gh.parse_ok {
            let m = gh.marker;
            assert!(resp.status_code == StatusCode::try_from_marker(m).unwrap(), "upstream's status is passed through");
            assert!(resp.body.len() == 2 && resp.body[0] == (m & 0xff) as u8 && resp.body[1] == (m >> 8) as u8, "upstream's body is passed through");
            kani::cover!(resp.status_code == StatusCode::NotFound, "an upstream 404 was passed through");
        } else {
            assert!(resp.status_code == StatusCode::BadGateway, "refused / failed write / unparsable answer => 502 Bad Gateway");
            assert!(resp.body == b"<html><body><h1>502 Bad Gateway</h1></body></html>".to_vec(), "fixed 502 body");
            assert!(gh.connect_ok || !gh.written, "nothing is written without a connection");
            kani::cover!(!gh.connect_ok, "connection refused path");
        }
        if gh.read_started {
            assert!(gh.read_timeout_set_before_read && gh.read_timeout_secs <= secs,
                "a read timeout no longer than the configured timeout is set on the upstream socket before the response is read");
        }
        if gh.written {
            assert!(gh.write_timeout_set_before_write, "a write timeout is set on the upstream socket before the request is written");
        }
    }
}

pub mod c04 {
    use crate::http::cors::Cors;
    use crate::http::headers::{HeaderType, Headers};
    use crate::http::method::Method;
    use crate::http::{Request, Response, StatusCode};
    use crate::route::{RouteHandler, SubApp, WebsocketRouteHandler};
    use crate::stream::Stream;
    use std::sync::Arc;

    pub const NH: usize = 2; // host-specific sub-apps
    pub const NR: usize = 2; // routes per sub-app (and default routes)

    /// The matcher's contract (C05): a function of (pattern, text). The request's Host and path are fixed during one
    /// dispatch, so the contract is a table "does pattern k match" -- symbolic, hence every combination of matching /
    /// non-matching hosts and routes, i.e. every Host value and every path, is covered by one run.
    pub struct M {
        pub host: [bool; NH],
        pub route: [[bool; NR]; NH],
        pub default_route: [bool; NR],
        pub asked_with_query: bool,
        pub ran: u8,
    }
    pub static mut MT: M = M { host: [false; NH], route: [[false; NR]; NH], default_route: [false; NR], asked_with_query: false, ran: 255 };
    pub fn m() -> &'static mut M { unsafe { &mut *std::ptr::addr_of_mut!(MT) } }

    /// patterns are the concrete names "h<i>", "r<i><j>", "d<j>"
    pub fn stub_wildcard_match(wild: &str, tame: &str) -> bool {
        let w = wild.as_bytes();
        if tame.as_bytes().contains(&b'?') { m().asked_with_query = true; }
        let d = |k: usize| (w[k] - b'0') as usize;
        match w[0] {
            b'h' => m().host[d(1)],
            b'r' => m().route[d(1)][d(2)],
            _ => m().default_route[d(1)],
        }
    }

    fn h(_r: Request, _s: Arc<()>) -> Response { Response::empty(StatusCode::OK) }
    fn route(name: &str) -> RouteHandler<()> {
        let f: fn(Request, Arc<()>) -> Response = h;
        RouteHandler { route: name.to_string(), handler: Box::new(f), cors: Cors::default() }
    }
    fn request(with_host: bool) -> Request {
        let mut headers = Headers::new();
        if with_host { headers.add(HeaderType::Host, "e"); }
        Request {
            method: Method::Get,
            uri: "/".to_string(),
            query: "q".to_string(),
            version: String::new(),
            headers,
            content: None,
            address: crate::http::address::Address { origin_addr: std::net::IpAddr::V4(std::net::Ipv4Addr::new(127, 0, 0, 1)), proxies: Vec::new(), port: 1 },
        }
    }
    fn symbolic_matrix() {
        let t = m();
        t.host = [kani::any(), kani::any()];
        t.route = [[kani::any(), kani::any()], [kani::any(), kani::any()]];
        t.default_route = [kani::any(), kani::any()];
        t.asked_with_query = false;
        t.ran = 255;
    }
    /// the routing rule of the property statement, over the match table
    fn expected(with_host: bool) -> Option<(usize, usize)> {
        let t = m();
        if with_host {
            let mut i = 0;
            while i < NH {
                if t.host[i] {
                    // first matching host is the only host-specific sub-app consulted
                    let mut j = 0;
                    while j < NR {
                        if t.route[i][j] { return Some((i, j)); }
                        j += 1;
                    }
                    break;
                }
                i += 1;
            }
        }
        let mut j = 0;
        while j < NR {
            if t.default_route[j] { return Some((NH, j)); }
            j += 1;
        }
        None
    }

    fn get_handler_contract(with_host: bool) {
        symbolic_matrix();
        let subapps: Vec<SubApp<()>> = vec![
            SubApp { host: "h0".to_string(), routes: vec![route("r00"), route("r01")], websocket_routes: Vec::new(), cors: None },
            SubApp { host: "h1".to_string(), routes: vec![route("r10"), route("r11")], websocket_routes: Vec::new(), cors: None },
        ];
        let default: SubApp<()> = SubApp { host: "*".to_string(), routes: vec![route("d0"), route("d1")], websocket_routes: Vec::new(), cors: None };
        let req = request(with_host);
        let got = super::super::get_handler(&req, &subapps, &default);
        match expected(with_host) {
            None => assert!(got.is_none(), "no matching route anywhere => no handler (404)"),
            Some((s, j)) => {
                let want: &RouteHandler<()> = if s < NH { &subapps[s].routes[j] } else { &default.routes[j] };
                match got {
                    Some(g) => assert!(std::ptr::eq(g, want), "first matching route of the first matching host, else first matching default route"),
                    None => assert!(false, "a matching route exists but no handler was chosen"),
                }
            }
        }
        assert!(!m().asked_with_query, "the query string takes no part in matching");
        kani::cover!(got.is_some(), "a handler was selected");
    }
    #[kani::proof]
    #[kani::unwind(5)]
    #[kani::stub(crate::krauss::wildcard_match, stub_wildcard_match)]
    pub fn c04_get_handler_with_host() { get_handler_contract(true); }
    #[kani::proof]
    #[kani::unwind(5)]
    #[kani::stub(crate::krauss::wildcard_match, stub_wildcard_match)]
    pub fn c04_get_handler_without_host() { get_handler_contract(false); }

    // ---- WebSocket dispatch: same rule over websocket_routes, observed by which handler ran ----
    fn ws0(_r: Request, _s: Stream, _st: Arc<()>) { m().ran = 0; }
    fn ws1(_r: Request, _s: Stream, _st: Arc<()>) { m().ran = 1; }
    fn ws2(_r: Request, _s: Stream, _st: Arc<()>) { m().ran = 2; }
    fn ws3(_r: Request, _s: Stream, _st: Arc<()>) { m().ran = 3; }
    fn ws4(_r: Request, _s: Stream, _st: Arc<()>) { m().ran = 4; }
    fn ws5(_r: Request, _s: Stream, _st: Arc<()>) { m().ran = 5; }
    fn wsroute(name: &str, f: fn(Request, Stream, Arc<()>)) -> WebsocketRouteHandler<()> {
        WebsocketRouteHandler { route: name.to_string(), handler: Box::new(f) }
    }
    pub fn stub_close(_fd: i32) -> i32 { 0 }
    fn websocket_contract(with_host: bool) { websocket_contract_shape(with_host, false) }
    /// small = 1 host sub-app x 1 route + 1 default route (the absent patterns never match)
    fn websocket_contract_shape(with_host: bool, small: bool) {
        use std::os::unix::io::FromRawFd;
        symbolic_matrix();
        let (subapps, default): (Vec<SubApp<()>>, SubApp<()>) = if small {
            let t = m();
            t.host[1] = false; t.route[0][1] = false; t.route[1] = [false, false]; t.default_route[1] = false;
            (vec![SubApp { host: "h0".to_string(), routes: Vec::new(), websocket_routes: vec![wsroute("r00", ws0)], cors: None }],
             SubApp { host: "*".to_string(), routes: Vec::new(), websocket_routes: vec![wsroute("d0", ws4)], cors: None })
        } else {
            (vec![
                SubApp { host: "h0".to_string(), routes: Vec::new(), websocket_routes: vec![wsroute("r00", ws0), wsroute("r01", ws1)], cors: None },
                SubApp { host: "h1".to_string(), routes: Vec::new(), websocket_routes: vec![wsroute("r10", ws2), wsroute("r11", ws3)], cors: None },
             ],
             SubApp { host: "*".to_string(), routes: Vec::new(), websocket_routes: vec![wsroute("d0", ws4), wsroute("d1", ws5)], cors: None })
        };
        let req = request(with_host);
        let stream = Stream::Tcp(unsafe { std::net::TcpStream::from_raw_fd(3) });
        super::super::call_websocket_handler(&req, &subapps, &default, Arc::new(()), stream);
        match expected(with_host) {
            None => assert!(m().ran == 255, "no matching WebSocket route => no handler runs (connection just closed)"),
            Some((s, j)) => assert!(m().ran as usize == s * NR + j, "exactly the handler of the first matching WebSocket route ran"),
        }
        kani::cover!(m().ran == 4, "a default WebSocket route reachable");
    }
    #[kani::proof]
    #[kani::unwind(5)]
    #[kani::stub(crate::krauss::wildcard_match, stub_wildcard_match)]
    #[kani::stub(libc::close, stub_close)]
    pub fn c04_websocket_dispatch_with_host() { websocket_contract(true); }
    #[kani::proof]
    #[kani::unwind(5)]
    #[kani::stub(crate::krauss::wildcard_match, stub_wildcard_match)]
    #[kani::stub(libc::close, stub_close)]
    pub fn c04_websocket_dispatch_without_host() { websocket_contract(false); }
    #[kani::proof]
    #[kani::unwind(5)]
    #[kani::stub(crate::krauss::wildcard_match, stub_wildcard_match)]
    #[kani::stub(libc::close, stub_close)]
    pub fn c04_websocket_dispatch_small_with_host() { websocket_contract_shape(true, true); }
}
