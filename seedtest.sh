#!/bin/sh
# dev helper: apply a seeded breaking change to /repo, run a property's quick check, undo the change.
# usage: seedtest.sh <ID> <patch.diff> <log>
ID=$1; PATCH=$2; LOG=$3
cd /repo || exit 9
git diff --quiet || { echo "repo dirty" > $LOG; exit 9; }
git apply "$PATCH" || { echo "patch does not apply" > $LOG; exit 9; }
( cd /verif && ./check $ID --tier quick ) > $LOG 2>&1
echo "rc=$?" >> $LOG
git -C /repo checkout -- .
