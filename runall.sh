#!/bin/sh
# dev helper: run every claimed property's check of the given tier sequentially, log to build/runall_<tier>.log
TIER=${1:-quick}
cd /verif
: > build/runall_$TIER.log
for id in $(python3 -c "import json;print(' '.join(c['property_id'] for c in json.load(open('MANIFEST.json'))['checks']))"); do
  echo "##### $id" >> build/runall_$TIER.log
  ( /usr/bin/time -f "wall=%es" ./check $id --tier $TIER ) >> build/runall_$TIER.log 2>&1
  echo "rc=$?" >> build/runall_$TIER.log
done
echo ALLDONE >> build/runall_$TIER.log
