"""Per-property step lists. See DESIGN.md section 4."""
from .runner import H

PROPS = {}

PROPS["C05"] = dict(
    level="proof",
    steps=[
        dict(kind="verus", unit="c05_krauss", code_functions=["wildcard_match"],
             witness=dict(crate="humphrey", module="in_app", timeout=1500,
                          harnesses=["c05_witness_1x2", "c05_witness_3x3"])),
    ],
    assumptions=[
        "Peekable<Chars> is a cursor over str::chars(): peek = head, next = pop, clone = same position (assume_specification in contracts/c05_krauss.vrs)",
        "vstd's model of str as Seq<char> (str::chars, view)",
    ],
    not_covered=[],
)
