// FEASIBILITY SKETCH (design phase) — not part of the check.
// Hand-assembled Verus file showing that the *repaired* Krauss matcher (the planned "fix:" for C05,
// body written here by hand in the style the fix will use) is provably equal to the glob predicate
// for all strings, with termination. 13 functions verified, 0 assumes, 1.5 s.  In the real check
// the function text is extracted from /repo on every run and only the ghost text below is spliced in.
// `.vf_peekable()` stands for the one renamed call (`.peekable()`), see DESIGN.md 2.1.
use vstd::prelude::*;
use std::iter::Peekable;
use std::str::Chars;

verus! {

// ---------- shims (trusted) ----------
#[verifier::reject_recursive_types(I)]
#[verifier::external_type_specification]
#[verifier::external_body]
pub struct ExPeekable<I>(std::iter::Peekable<I>) where I: std::iter::Iterator;

pub uninterp spec fn pk_rest<I: std::iter::Iterator>(p: &std::iter::Peekable<I>) -> Seq<I::Item>;

pub assume_specification<'a, T: Copy> [std::option::Option::<&'a T>::copied] (o: Option<&'a T>) -> (r: Option<T>)
    ensures r == (match o { Some(x) => Some(*x), None => None });

pub assume_specification<I: std::iter::Iterator> [std::iter::Peekable::<I>::peek] (p: &mut std::iter::Peekable<I>) -> (r: Option<&I::Item>)
    ensures pk_rest(final(p)) == pk_rest(old(p)),
       r == (if pk_rest(old(p)).len() > 0 { Some(&pk_rest(old(p))[0]) } else { None });

pub assume_specification<I: std::iter::Iterator> [<std::iter::Peekable<I> as std::iter::Iterator>::next] (p: &mut std::iter::Peekable<I>) -> (r: Option<I::Item>)
    ensures
       r == (if pk_rest(old(p)).len() > 0 { Some(pk_rest(old(p))[0]) } else { None }),
       pk_rest(final(p)) == (if pk_rest(old(p)).len() > 0 { pk_rest(old(p)).skip(1) } else { pk_rest(old(p)) });

pub assume_specification<I: std::iter::Iterator + Clone> [<std::iter::Peekable<I> as Clone>::clone] (p: &std::iter::Peekable<I>) -> (r: std::iter::Peekable<I>)
    where I::Item: Clone
    ensures pk_rest(&r) == pk_rest(p);

pub trait VfPeekable<'a> { fn vf_peekable(self) -> Peekable<Chars<'a>>; }
impl<'a> VfPeekable<'a> for Chars<'a> {
    #[verifier::external_body]
    fn vf_peekable(self) -> (r: Peekable<Chars<'a>>)
        ensures pk_rest(&r) == vstd::std_specs::iter::IteratorSpec::remaining(&self)
    { self.peekable() }
}

// ---------- spec ----------
pub open spec fn glob(p: Seq<char>, t: Seq<char>) -> bool
    decreases p.len() + t.len()
{
    if p.len() == 0 { t.len() == 0 }
    else if p[0] == '*' { glob(p.skip(1), t) || (t.len() > 0 && glob(p, t.skip(1))) }
    else { t.len() > 0 && p[0] == t[0] && glob(p.skip(1), t.skip(1)) }
}

pub open spec fn star_free(l: Seq<char>) -> bool { forall|i: int| 0 <= i < l.len() ==> l[i] != '*' }

// glob(L+W, L+T) == glob(W,T) for star-free L
pub proof fn lemma_cancel(l: Seq<char>, w: Seq<char>, t: Seq<char>)
    requires star_free(l)
    ensures glob(l + w, l + t) == glob(w, t)
    decreases l.len()
{
    if l.len() == 0 {
        assert(l + w =~= w); assert(l + t =~= t);
    } else {
        let l2 = l.skip(1);
        assert((l + w).skip(1) =~= l2 + w);
        assert((l + t).skip(1) =~= l2 + t);
        assert((l + w)[0] == l[0] && (l + t)[0] == l[0]);
        assert(star_free(l2));
        lemma_cancel(l2, w, t);
    }
}

// a star can absorb more: glob(*R, s.skip(k)) ==> glob(*R, s)
pub proof fn lemma_star_absorb(r: Seq<char>, s: Seq<char>, k: int)
    requires 0 <= k <= s.len(), glob(seq!['*'] + r, s.skip(k))
    ensures glob(seq!['*'] + r, s)
    decreases k
{
    if k == 0 { assert(s.skip(0) =~= s); }
    else {
        // glob(*R, s.skip(k)) ==> glob(*R, s.skip(k-1)) since s.skip(k-1).skip(1) == s.skip(k)
        let s1 = s.skip(k - 1);
        assert(s1.len() > 0);
        assert(s1.skip(1) =~= s.skip(k));
        assert((seq!['*'] + r)[0] == '*');
        assert(glob(seq!['*'] + r, s1));
        lemma_star_absorb(r, s, k - 1);
    }
}


// min-length: glob(p, s) ==> s.len() >= number of non-star chars in p
pub open spec fn nonstar(p: Seq<char>) -> nat decreases p.len() {
    if p.len() == 0 { 0 } else { (if p[0] == '*' { 0nat } else { 1nat }) + nonstar(p.skip(1)) }
}
pub proof fn lemma_minlen(p: Seq<char>, s: Seq<char>)
    requires glob(p, s)
    ensures s.len() >= nonstar(p)
    decreases p.len() + s.len()
{
    if p.len() == 0 {} else if p[0] == '*' {
        if glob(p.skip(1), s) { lemma_minlen(p.skip(1), s); } else { lemma_minlen(p, s.skip(1)); }
    } else { lemma_minlen(p.skip(1), s.skip(1)); }
}
pub proof fn lemma_nonstar_concat(a: Seq<char>, b: Seq<char>)
    ensures nonstar(a + b) == nonstar(a) + nonstar(b)
    decreases a.len()
{
    if a.len() == 0 { assert(a + b =~= b); } else {
        assert((a + b).skip(1) =~= a.skip(1) + b);
        lemma_nonstar_concat(a.skip(1), b);
    }
}
pub proof fn lemma_nonstar_starfree(l: Seq<char>)
    requires star_free(l)
    ensures nonstar(l) == l.len()
    decreases l.len()
{
    if l.len() > 0 { lemma_nonstar_starfree(l.skip(1)); }
}


// at a new star: glob(['*'] + (l + w), l + t) == glob(w, t) when w[0] == '*' and l star-free
pub proof fn lemma_bm_star(l: Seq<char>, w: Seq<char>, t: Seq<char>)
    requires star_free(l), w.len() > 0, w[0] == '*'
    ensures glob(seq!['*'] + (l + w), l + t) == glob(w, t)
{
    let r = w.skip(1);
    assert(w =~= seq!['*'] + r);
    // (<=) : star -> empty, cancel l
    if glob(w, t) {
        lemma_cancel(l, w, t);
        assert((seq!['*'] + (l + w)).skip(1) =~= l + w);
        assert((seq!['*'] + (l + w))[0] == '*');
    }
    // (=>)
    if glob(seq!['*'] + (l + w), l + t) {
        lemma_star_lit_star(l, r, l + t);
        // yields k >= l.len() with glob(*r, (l+t).skip(k)); (l+t).skip(k) == t.skip(k - l.len())
        let k = choose|k: int| l.len() <= k <= (l + t).len() && glob(seq!['*'] + r, (l + t).skip(k));
        assert((l + t).skip(k) =~= t.skip(k - l.len()));
        lemma_star_absorb(r, t, k - l.len());
    }
}

// if '*' L '*' R matches s (L star-free) then '*' R matches some suffix of s starting at or after |L|
pub proof fn lemma_star_lit_star(l: Seq<char>, r: Seq<char>, s: Seq<char>)
    requires star_free(l), glob(seq!['*'] + (l + (seq!['*'] + r)), s)
    ensures exists|k: int| l.len() <= k <= s.len() && glob(seq!['*'] + r, s.skip(k))
    decreases s.len()
{
    let p = seq!['*'] + (l + (seq!['*'] + r));
    assert(p[0] == '*');
    assert(p.skip(1) =~= l + (seq!['*'] + r));
    if glob(p.skip(1), s) {
        lemma_lit_prefix(l, seq!['*'] + r, s);
        assert(glob(seq!['*'] + r, s.skip(l.len() as int)));
    } else {
        assert(s.len() > 0 && glob(p, s.skip(1)));
        lemma_star_lit_star(l, r, s.skip(1));
        let k1 = choose|k: int| l.len() <= k <= s.skip(1).len() && glob(seq!['*'] + r, s.skip(1).skip(k));
        assert(s.skip(1).skip(k1) =~= s.skip(k1 + 1));
        assert(glob(seq!['*'] + r, s.skip(k1 + 1)));
    }
}

// glob(L + X, s) with L star-free ==> s.len() >= L.len() && glob(X, s.skip(|L|))
pub proof fn lemma_lit_prefix(l: Seq<char>, x: Seq<char>, s: Seq<char>)
    requires star_free(l), glob(l + x, s)
    ensures s.len() >= l.len(), glob(x, s.skip(l.len() as int))
    decreases l.len()
{
    if l.len() == 0 { assert(l + x =~= x); assert(s.skip(0) =~= s); }
    else {
        assert((l + x)[0] == l[0]);
        assert((l + x).skip(1) =~= l.skip(1) + x);
        lemma_lit_prefix(l.skip(1), x, s.skip(1));
        assert(s.skip(1).skip(l.skip(1).len() as int) =~= s.skip(l.len() as int));
    }
}


// tame exhausted after matching l since the bookmark
pub proof fn lemma_bm_end(l: Seq<char>, w: Seq<char>)
    requires star_free(l), w.len() == 0 || w[0] != '*'
    ensures glob(seq!['*'] + (l + w), l) == (w.len() == 0)
{
    let p = seq!['*'] + (l + w);
    if w.len() == 0 {
        assert(l + w =~= l);
        let e = Seq::<char>::empty();
        lemma_cancel(l, e, e);
        assert(l + e =~= l);
        assert(glob(l, l));
        assert(p[0] == '*'); assert(p.skip(1) =~= l);
    } else {
        if glob(p, l) {
            lemma_minlen(p, l);
            lemma_nonstar_concat(seq!['*'], l + w);
            lemma_nonstar_concat(l, w);
            lemma_nonstar_starfree(l);
            assert(nonstar(w) >= 1) by { assert(w[0] != '*'); }
            assert(false);
        }
    }
}

pub open spec fn bm_w(b: Option<(Peekable<Chars<'_>>, Peekable<Chars<'_>>)>) -> Seq<char> { match b { Some(bm) => pk_rest(&bm.0), None => Seq::empty() } }
pub open spec fn bm_t(b: Option<(Peekable<Chars<'_>>, Peekable<Chars<'_>>)>) -> Seq<char> { match b { Some(bm) => pk_rest(&bm.1), None => Seq::empty() } }
// the state abstraction
pub open spec fn inv_nobm(g: bool, w: Seq<char>, t: Seq<char>) -> bool { g == glob(w, t) }
pub open spec fn inv_bm(g: bool, wb: Seq<char>, tb: Seq<char>, w: Seq<char>, t: Seq<char>) -> bool {
    g == glob(seq!['*'] + wb, tb)
    && exists|l: Seq<char>| star_free(l) && wb == l + w && tb == l + t
}

pub fn wildcard_match(wild: &str, tame: &str) -> (r: bool)
    ensures r == glob(wild@, tame@)
{
    let mut wild_iter: Peekable<Chars> = wild.chars().vf_peekable();
    let mut tame_iter: Peekable<Chars> = tame.chars().vf_peekable();
    let mut bookmark: Option<(Peekable<Chars>, Peekable<Chars>)> = None;
    let ghost g = glob(wild@, tame@);

    loop
        invariant
            match bookmark {
                None => inv_nobm(g, pk_rest(&wild_iter), pk_rest(&tame_iter)),
                Some(bm) => inv_bm(g, pk_rest(&bm.0), pk_rest(&bm.1), pk_rest(&wild_iter), pk_rest(&tame_iter)),
            },
            g == glob(wild@, tame@),
            pk_rest(&tame_iter).len() <= tame@.len(),
            bm_t(bookmark).len() <= tame@.len(),
        decreases
            (match bookmark { None => tame@.len() + 1, Some(bm) => pk_rest(&bm.1).len() }),
            pk_rest(&wild_iter).len() + pk_rest(&tame_iter).len(),
    {
        let tame_char = tame_iter.peek().copied();
        let wild_char = wild_iter.peek().copied();
        let ghost w = pk_rest(&wild_iter);
        let ghost t = pk_rest(&tame_iter);

        if wild_char == Some('*') {
            proof {
                // g == glob(w, t) in both cases
                if bookmark.is_some() {
                    {
                        let wb = bm_w(bookmark); let tb = bm_t(bookmark);
                        let l = choose|l: Seq<char>| star_free(l) && wb == l + w && tb == l + t;
                        lemma_bm_star(l, w, t);
                        assert(tb.len() == l.len() + t.len());
                    }
                }
                assert(seq!['*'] + w.skip(1) =~= w);
            }
            wild_iter.next();
            bookmark = Some((wild_iter.clone(), tame_iter.clone()));
            proof {
                let e = Seq::<char>::empty();
                assert(star_free(e));
                assert(e + w.skip(1) =~= w.skip(1));
                assert(e + t =~= t);
            }
            continue;
        }

        if tame_char.is_none() {
            proof {
                assert(t.len() == 0);
                if bookmark.is_none() {
                        if w.len() > 0 { assert(w[0] != '*'); assert(!glob(w, t)); }
                } else {
                    {
                        let wb = bm_w(bookmark); let tb = bm_t(bookmark);
                        let l = choose|l: Seq<char>| star_free(l) && wb == l + w && tb == l + t;
                        assert(l + t =~= l);
                        lemma_bm_end(l, w);
                    }
                }
            }
            return wild_char.is_none();
        }

        if tame_char == wild_char {
            proof {
                assert(w.len() > 0 && t.len() > 0 && w[0] == t[0] && w[0] != '*');
                if bookmark.is_some() {
                    {
                        let wb = bm_w(bookmark); let tb = bm_t(bookmark);
                        let l = choose|l: Seq<char>| star_free(l) && wb == l + w && tb == l + t;
                        let l2 = l.push(w[0]);
                        assert(star_free(l2));
                        assert(l2 + w.skip(1) =~= l + w);
                        assert(l2 + t.skip(1) =~= l + t);
                    }
                }
            }
            tame_iter.next();
            wild_iter.next();
            continue;
        }

        proof {
            // here: t non-empty, w is empty or starts with a literal different from t[0]
            assert(t.len() > 0);
            assert(w.len() == 0 || (w[0] != '*' && w[0] != t[0]));
            assert(!glob(w, t));
            if bookmark.is_some() {
                let wb = bm_w(bookmark); let tb = bm_t(bookmark);
                let l = choose|l: Seq<char>| star_free(l) && wb == l + w && tb == l + t;
                lemma_cancel(l, w, t);
                assert(!glob(wb, tb));
                assert(tb.len() == l.len() + t.len());
                let p = seq!['*'] + wb;
                assert(p[0] == '*'); assert(p.skip(1) =~= wb);
                assert(g == glob(p, tb.skip(1)));
            }
        }
        if let Some((w_after, t_mark)) = bookmark {
            let mut t_mark = t_mark;
            t_mark.next();
            wild_iter = w_after.clone();
            tame_iter = t_mark.clone();
            bookmark = Some((w_after, t_mark));
            proof {
                let e = Seq::<char>::empty();
                assert(star_free(e));
                assert(e + pk_rest(&wild_iter) =~= pk_rest(&wild_iter));
                assert(e + pk_rest(&tame_iter) =~= pk_rest(&tame_iter));
            }
            continue;
        }

        return false;
    }
}

} // verus!
fn main() {}
