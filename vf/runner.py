"""Property runner: executes the steps of a property, classifies, writes evidence and replay files."""
import hashlib
import json
import os
import re
import sys
import time

from . import kani_unit, verus_unit

VERIF = os.path.dirname(os.path.dirname(os.path.abspath(__file__)))
REPO = os.environ.get("VERIF_REPO", "/repo")


class H:
    """Kani harness descriptor."""

    def __init__(self, name, cls, obligation, bound=None, tier="quick", timeout=900, playback=True):
        assert cls in ("complete", "modular", "bounded")
        self.name, self.cls, self.obligation, self.bound, self.tier, self.timeout = name, cls, obligation, bound, tier, timeout
        self.playback = playback   # False: do not re-run with concrete playback (trace too large); the violation is reported at once


def _san(s):
    return re.sub(r"[^A-Za-z0-9_.@-]+", "_", s)[:150]


def load_known():
    known, fixed = [], []
    p = os.path.join(VERIF, "known_findings.txt")
    if os.path.exists(p):
        for ln in open(p):
            ln = ln.strip()
            if ln.startswith("known:"):
                m = re.match(r"known:\s*property=(\S+)\s+obligation=(\S+)\s*(.*)$", ln)
                if m: known.append(dict(property=m.group(1), obligation=m.group(2), what=m.group(3)))
            elif ln.startswith("fixed:"):
                fixed.append(ln)
    return known, fixed


class Run:
    def __init__(self, pid, spec, tier, seed):
        self.pid, self.spec, self.tier, self.seed = pid, spec, tier, seed
        self.t0 = time.time()
        self.violations = []      # dicts obligation, replay, no_input
        self.undecided = []       # strings
        self.known_hits = []
        self.functions = []       # functions under contract (with hashes)
        self.obligations = 0
        self.discharged = 0
        self.samples = []
        self.bounded = []
        self.backends = {}
        self.solver_s = 0.0
        self.trusted = []
        self.cmds = []
        self.rewrites = []
        self.harness_rows = []
        self.known, self.fixed = load_known()

    def log(self, *a):
        print(*a, flush=True)

    # ---------------- violations ----------------
    def report(self, obligation, replay_obj, reproduced):
        for k in self.known:
            if k["property"] == self.pid and k["obligation"] == obligation:
                self.log("KNOWN-FINDING: property=%s %s %s" % (self.pid, obligation, k["what"]))
                self.known_hits.append(obligation)
                return
        d = os.path.join(VERIF, "replays", self.pid)
        os.makedirs(d, exist_ok=True)
        path = os.path.join(d, _san(obligation) + ".json")
        replay_obj["property"] = self.pid
        replay_obj["obligation"] = obligation
        replay_obj["reproduced_on_real_code"] = bool(reproduced)
        json.dump(replay_obj, open(path, "w"), indent=1)
        tail = "" if reproduced else " no-failing-input-found"
        self.log("VIOLATION property=%s replay=%s%s" % (self.pid, path, tail))
        self.log("  obligation: %s" % obligation)
        self.violations.append(dict(obligation=obligation, replay=path, reproduced=bool(reproduced)))

    # ---------------- kani ----------------
    def kani_counterexample(self, crate, module, hname, timeout, unwind_rules=None):
        """Re-run one failing harness with concrete playback and execute the playback natively."""
        res, logp = kani_unit.run_harnesses(REPO, crate, [hname], timeout_s=timeout, jobs=1, playback=True, tag="pb_" + hname,
                                            features=self.spec.get("features", {}).get(crate), unwind_rules=unwind_rules, mem_gb=40)
        hr = res[hname]
        out = dict(harness=hname, crate=crate, kani_log=logp)
        if hr.playback is None:
            out["note"] = "kani produced no concrete playback (status %s: %s)" % (hr.status, hr.reason)
            return out, False
        # Kani prints one test per failed check AND per satisfied cover: try the ones for failed checks first
        cands = sorted(hr.playbacks or [hr.playback], key=lambda t: ("Check for `cover`" in t[1], ))
        ran = passed = False
        tail = ""
        pretty, test_src = cands[0]
        for pretty, test_src in cands[:6]:
            ran, passed, tail = kani_unit.run_playback(REPO, crate, module, pretty, test_src)
            if ran and not passed:
                break
        out["playback_test"] = test_src
        out["values"] = kani_unit.decode_playback_values(test_src)
        out["native_run_ran"] = ran
        out["native_run_output_tail"] = tail[-2500:]
        out["module"] = module
        out["pretty"] = pretty
        reproduced = ran and not passed
        return out, reproduced

    def step_kani(self, st):
        crate, module = st["crate"], st["module"]
        hs = [h for h in st["harnesses"] if h.tier == "quick" or self.tier == "thorough"]
        if not hs: return
        jobs = st.get("jobs", 6)
        # group by timeout to keep the overall budget predictable
        names = [h.name for h in hs]
        tmo = max(h.timeout for h in hs)
        res, logp = kani_unit.run_harnesses(REPO, crate, names, timeout_s=tmo, jobs=jobs, tag=self.pid + "_" + st.get("tag", module),
                                            extra_args=st.get("extra_args", ()), features=self.spec.get("features", {}).get(crate),
                                            unwind_rules=st.get("unwind_rules"), mem_gb=st.get("mem_gb"))
        self.cmds.append("cargo kani -p %s -Z stubbing -Z function-contracts --harness <h> (from /repo, HUMPHREY_VERIF=/verif); log %s" % (crate, logp))
        self.backends["kani-0.68/cbmc-6.11/cadical"] = self.backends.get("kani-0.68/cbmc-6.11/cadical", 0)
        for h in hs:
            r = res[h.name]
            row = dict(harness=h.name, cls=h.cls, bound=h.bound, obligation=h.obligation, status=r.status,
                       reason=r.reason, checks=r.checks_total, time_s=round(r.time_s, 1),
                       covers=["%s: %s" % (c["status"], c["description"]) for c in r.covers])
            self.harness_rows.append(row)
            self.solver_s += r.time_s
            if r.status == "ok":
                self.log("  ok   [%s] %s (%d checks, %.0fs)" % (h.cls, h.name, r.checks_total, r.time_s))
                if h.cls == "bounded":
                    self.bounded.append(dict(harness=h.name, bound=h.bound, cbmc_checks=r.checks_total, obligation=h.obligation))
                else:
                    self.obligations += r.checks_total
                    self.discharged += r.checks_total
                    self.backends["kani-0.68/cbmc-6.11/cadical"] += r.checks_total
                if len(self.samples) < 12:
                    self.samples.append("%s [%s]: %s" % (h.name, h.cls, h.obligation))
            elif r.status == "failed":
                if h.cls != "bounded":
                    self.obligations += r.checks_total
                    self.discharged += r.checks_passed
                for fc in r.failed_checks[:3]:
                    self.log("  FAIL %s: %s (%s:%s)" % (h.name, fc["description"], fc["file"], fc["line"]))
                fc = r.failed_checks[0]
                what = fc["description"]
                if "placeholder message" in what or not what.strip():
                    what = "panic in " + (fc.get("function") or "?")
                obligation = "%s::%s::%s" % (crate, h.name, _san(what)[:60])
                known = [k for k in self.known if k["property"] == self.pid and k["obligation"] == obligation]
                if known:
                    self.report(obligation, {}, False)
                    continue
                if h.playback:
                    cex, reproduced = self.kani_counterexample(crate, module, h.name, h.timeout, st.get("unwind_rules"))
                else:
                    cex, reproduced = dict(harness=h.name, crate=crate, kani_log=logp,
                                           note="concrete playback not attempted for this harness (its CBMC trace is too large: > 25 min measured); "
                                                "the harness input is fixed by construction: " + (h.bound or "")), False
                cex["failed_checks"] = r.failed_checks
                cex["engine"] = "kani"
                cex["harness_obligation"] = h.obligation
                self.report(obligation, cex, reproduced)
            else:
                self.log("  UNDECIDED %s: %s" % (h.name, r.reason))
                self.undecided.append("%s: %s" % (h.name, r.reason))

    # ---------------- verus ----------------
    def step_verus(self, st):
        unit = st["unit"]
        seeds = [None]
        if self.tier == "thorough":
            seeds += [self.seed * 7 + k + 1 for k in range(3)]
        base_p = os.path.join(VERIF, "contracts", unit + ".baseline.json")
        baseline = json.load(open(base_p)) if os.path.exists(base_p) else None
        first = None
        for sd in seeds:
            r = verus_unit.run_unit(REPO, unit, seed=sd)
            if first is None: first = r
            self.cmds.append(r.cmd)
            self.solver_s += r.smt_ms / 1000.0
            if r.status == "ok":
                self.log("  ok   [verus] %s seed=%s: %d functions verified, smt %.1fs, wall %.1fs" % (unit, sd, r.verified, r.smt_ms / 1000.0, r.wall_s))
                if baseline is not None:
                    names = {f["name"] for f in r.functions if f["success"]}
                    missing = [b for b in baseline["verified_functions"] if b not in names]
                    if missing:
                        self.undecided.append("%s: functions verified on the baseline are no longer generated: %s" % (unit, missing[:5]))
                continue
            if r.status == "undecided" or sd is not None:
                # a failure that only shows under a different seed is proof instability, not a violation
                why = r.reason if r.status == "undecided" else "unstable proof under seed %s: %s" % (sd, [f["obligation"] for f in r.failures][:2])
                self.log("  UNDECIDED [verus] %s: %s" % (unit, why))
                w = st.get("witness")
                if sd is None and w:
                    # the proof could not be attempted on this shape of the function (restructured code, construct the
                    # Verus front end rejects): fall back to the unit's BOUNDED stand-in -- the Kani witness harnesses
                    # that compare the real function with an executable transcription of the spec function. A failing
                    # harness is a violation with a counterexample; passing harnesses leave the unit undecided.
                    found = False
                    self.log("  bounded stand-in: Kani witness harnesses %s (in parallel) ..." % ", ".join(w["harnesses"]))
                    res, logp = kani_unit.run_harnesses(REPO, w["crate"], list(w["harnesses"]), timeout_s=w.get("timeout", 900),
                                                        jobs=len(w["harnesses"]), tag="wit_" + unit)
                    for hname in w["harnesses"]:
                        wr = res[hname]
                        self.log("    %s: %s %s" % (hname, wr.status, wr.reason))
                        if wr.status == "failed" and not found:
                            fc = wr.failed_checks[0]
                            cex, reproduced = self.kani_counterexample(w["crate"], w["module"], hname, w.get("timeout", 900))
                            cex.update(engine="kani", failed_checks=wr.failed_checks, note="Verus unit %s undecided (%s); bounded witness harness failed" % (unit, why))
                            self.report("%s::%s::%s" % (w["crate"], hname, _san(fc["description"])[:60]), cex, reproduced)
                            found = True
                    if found:
                        continue
                self.undecided.append("%s: %s" % (unit, why))
                continue
            # failed on the default seed
            code_fail = []
            for f in r.failures:
                in_base = baseline is None or any(b == f["function"] or b.endswith("::" + f["function"]) for b in baseline["verified_functions"])
                on_code = f["function"] in st["code_functions"]
                if in_base and on_code:
                    code_fail.append(f)
                else:
                    self.undecided.append("%s: obligation failed outside extracted code or not in baseline: %s" % (unit, f["obligation"]))
                    self.log("  UNDECIDED [verus] %s" % f["obligation"])
            seen = set()
            for f in code_fail:
                # stable obligation name: unit::function::kind (line numbers move with harmless edits)
                ob = "%s::%s::%s" % (unit, f["function"], f["kind"])
                if ob in seen: continue
                seen.add(ob)
                self.log("  FAIL [verus] %s at %s:%s" % (ob, f["repo_file"], f["repo_line"]))
                replay = dict(engine="verus", unit=unit, verifier_message=f["message"], verifier_output=f["rendered"],
                              repo_location="%s:%s" % (f["repo_file"], f["repo_line"]), verus_cmd=r.cmd,
                              all_failures=[x["obligation"] for x in r.failures])
                reproduced = False
                if [k for k in self.known if k["property"] == self.pid and k["obligation"] == ob]:
                    self.report(ob, replay, False); continue
                w = st.get("witness")
                if w and not any(v.get("witness_tried") for v in self.violations):
                    for hname in w["harnesses"]:
                        self.log("  searching counterexample with Kani witness harness %s ..." % hname)
                        res, logp = kani_unit.run_harnesses(REPO, w["crate"], [hname], timeout_s=w.get("timeout", 900), jobs=1, tag="wit_" + hname)
                        if res[hname].status == "failed":
                            cex, reproduced = self.kani_counterexample(w["crate"], w["module"], hname, w.get("timeout", 900))
                            replay["counterexample"] = cex
                            break
                        replay.setdefault("witness_search", []).append("%s: %s %s" % (hname, res[hname].status, res[hname].reason))
                self.report(ob, replay, reproduced)
                if self.violations: self.violations[-1]["witness_tried"] = True
        r = first
        self.rewrites += r.rewrites
        for it in r.items:
            self.functions.append(it)
        self.trusted += ["%s: %s" % (unit, a) for a in r.assumed]
        nfun = len([f for f in r.functions if f["name"] != "vf_canary"])
        nok = len([f for f in r.functions if f["success"] and f["name"] != "vf_canary"])
        self.obligations += nfun
        self.discharged += nok
        self.backends["verus-0.2026.09.13/z3"] = self.backends.get("verus-0.2026.09.13/z3", 0) + nok
        for f in r.functions:
            if f["mode"] == "exec" and len(self.samples) < 12:
                self.samples.append("%s::%s [verus exec fn, all clauses] %s" % (unit, f["name"], "discharged" if f["success"] else "FAILED"))
        if os.environ.get("VERIF_WRITE_BASELINE") and r.status == "ok":
            json.dump(dict(unit=unit, verified_functions=sorted(f["name"] for f in r.functions if f["success"])), open(base_p, "w"), indent=1)

    # ---------------- finish ----------------
    def finish(self):
        spec = self.spec
        wall = time.time() - self.t0
        level = spec["level"]
        cov = dict(
            obligations=self.obligations, discharged=self.discharged,
            checker_cmd=" ; ".join(dict.fromkeys(self.cmds))[:4000] or "none",
            trusted_base=sorted(set(self.trusted))[:200] + spec.get("trusted", []),
            samples=self.samples or ["(no obligation completed)"],
            functions_under_contract=self.functions + spec.get("kani_functions", []),
            extraction_rewrites=sorted(set(self.rewrites)),
            extraction_drops="doc comments, outer attributes (#[derive]/#[allow]/#[repr]), visibility normalised to pub; trait-impl wrappers listed per unit in contracts/*.vrs",
            bounded=self.bounded,
            harnesses=self.harness_rows,
            backends=self.backends,
            solver_time_s=round(self.solver_s, 1),
            not_covered=spec.get("not_covered", []),
            undecided=self.undecided,
            known_findings_hit=self.known_hits,
            exhaustive=False,
            # generic keys (accepted by every level)
            evaluations=max(1, len(self.harness_rows) + len([c for c in self.cmds if c.startswith("verus")])),
            distinct_nontrivial=len([h for h in self.harness_rows if h["status"] == "ok" and h["checks"] > 0]) + self.backends.get("verus-0.2026.09.13/z3", 0),
            rule="one evaluation = one Verus unit run or one Kani harness; non-trivial = harness with >0 CBMC checks and all covers satisfied, or a Verus function whose SMT query was discharged",
        )
        if level == "proof" and (self.obligations == 0 or self.discharged != self.obligations):
            # a run that did not discharge everything (violation / undecided) must not present itself as a proof
            level = "other"
            cov["explanation"] = "this run did not discharge all obligations: %d of %d discharged, %d violation(s), %d undecided item(s)" % (
                self.discharged, self.obligations, len(self.violations), len(self.undecided))
        ev = dict(property_id=self.pid, tier=self.tier, seed=self.seed, level=level, coverage=cov,
                  assumptions=spec.get("assumptions", []) + ["see coverage.trusted_base for the mechanically scanned list"],
                  wall_s=round(wall, 1), violations=len(self.violations))
        os.makedirs(os.path.join(VERIF, "evidence"), exist_ok=True)
        json.dump(ev, open(os.path.join(VERIF, "evidence", self.pid + ".json"), "w"), indent=1)
        if self.violations:
            return 1
        if self.undecided:
            self.log("UNDECIDED property=%s (%d item(s)); no violation reported" % (self.pid, len(self.undecided)))
            return 2
        self.log("OK property=%s tier=%s obligations=%d discharged=%d bounded_harnesses=%d wall=%.0fs" % (
            self.pid, self.tier, self.obligations, self.discharged, len(self.bounded), wall))
        return 0


def run_property(pid, spec, tier, seed):
    run = Run(pid, spec, tier, seed)
    for st in spec["steps"]:
        if st.get("tier", "quick") == "thorough" and tier != "thorough":
            continue
        if st["kind"] == "verus": run.step_verus(st)
        elif st["kind"] == "kani": run.step_kani(st)
        else: raise ValueError(st["kind"])
    return run.finish()


def replay(pid, path):
    obj = json.load(open(path))
    cex = obj.get("counterexample") if obj.get("engine") == "verus" else obj
    if not cex or "playback_test" not in cex:
        print("replay file carries no concrete input (obligation %s); verifier output follows" % obj.get("obligation"))
        print(obj.get("verifier_output", "")[:3000])
        return 1
    ran, passed, tail = kani_unit.run_playback(REPO, cex["crate"], cex["module"], cex["pretty"], cex["playback_test"])
    print(tail[-2500:])
    if ran and not passed:
        print("REPLAY: counterexample reproduces on the real code (harness assertion fails natively)")
        return 1
    print("REPLAY: counterexample does not reproduce (ran=%s passed=%s)" % (ran, passed))
    return 0
