// Kani harnesses compiled inside humphrey_auth (crate root: AuthProvider's private fields are visible).
// C17: per-operation contracts from an ARBITRARY well-formed user database => every history of session operations.

use crate::config::AuthConfig;
use crate::database::AuthDatabase;
use crate::error::AuthError;
use crate::session::Session;
use crate::user::User;
use crate::AuthProvider;
use std::time::{Duration, SystemTime};

pub mod gh {
    /// ghost clock (seconds) and the counter behind "fresh" tokens
    pub static mut NOW: u64 = 0;
    pub static mut FRESH: u8 = 0;
}
pub fn stub_now() -> SystemTime {
    SystemTime::UNIX_EPOCH + Duration::from_secs(unsafe { gh::NOW })
}
/// Contract of Session::create_with_lifetime (OsRng + hex formatting are outside both verifiers): a token that differs
/// from every token in existence (ASSUMED: 256 bits from the OS RNG never repeat), expiring `lifetime` from now.
pub fn stub_create_with_lifetime(lifetime: u64) -> Session {
    let n = unsafe { gh::FRESH += 1; gh::FRESH };
    // stored tokens in the harness are single characters 'a'..'c'; fresh ones are "F<n>"
    let mut token = String::with_capacity(2);
    token.push('F');
    token.push((b'0' + n) as char);
    Session { token, expiry: unsafe { gh::NOW } + lifetime }
}

#[derive(Clone, Copy)]
pub struct US {
    pub has: bool,
    pub tok: u8,
    pub exp: u64,
}
fn tok_str(b: u8) -> String {
    let mut s = String::with_capacity(1);
    s.push(b as char);
    s
}
fn any_us() -> US {
    let tok: u8 = kani::any();
    kani::assume(tok == b'a' || tok == b'b' || tok == b'c');
    US { has: kani::any(), tok, exp: kani::any() }
}
/// Arbitrary well-formed database of two users "u0", "u1": uids distinct, tokens of stored sessions pairwise distinct
/// (every token ever issued is fresh); sessions may be live or expired; clock arbitrary.
pub fn arbitrary() -> (AuthProvider<Vec<User>>, [US; 2], u64) {
    let now: u64 = kani::any();
    kani::assume(now < (1u64 << 40));
    unsafe { gh::NOW = now; gh::FRESH = 0; }
    let s = [any_us(), any_us()];
    kani::assume(s[0].exp < (1u64 << 41) && s[1].exp < (1u64 << 41));
    kani::assume(!(s[0].has && s[1].has) || s[0].tok != s[1].tok);
    let mk = |i: usize| User {
        uid: if i == 0 { "u0".to_string() } else { "u1".to_string() },
        session: if s[i].has { Some(Session { token: tok_str(s[i].tok), expiry: s[i].exp }) } else { None },
        password_hash: String::new(),
    };
    // built with push: a `vec![a, b]` literal of structs holding Strings makes Kani 0.68 return garbage from
    // String::clone (measured: uid[1] of users[0].clone() arbitrary), a pushed Vec does not
    let mut users: Vec<User> = Vec::with_capacity(2);
    users.push(mk(0));
    users.push(mk(1));
    let lifetime: u64 = kani::any();
    let refresh: u64 = kani::any();
    kani::assume(lifetime < (1u64 << 32) && refresh < (1u64 << 32));
    let p = AuthProvider { users, config: AuthConfig { default_lifetime: lifetime, default_refresh_lifetime: refresh, pepper: None } };
    (p, s, now)
}
fn live(s: &US, now: u64) -> bool { s.has && now < s.exp }
/// abstract view of user i after an operation
fn view(p: &AuthProvider<Vec<User>>, i: usize) -> Option<(String, u64)> {
    let uid = if i == 0 { "u0" } else { "u1" };
    let u = p.users.iter().find(|u| u.uid == uid);
    match u { Some(u) => u.session.as_ref().map(|s| (s.token.clone(), s.expiry)), None => None }
}
fn unchanged(p: &AuthProvider<Vec<User>>, i: usize, s: &US) -> bool {
    match view(p, i) {
        None => !s.has,
        Some((t, e)) => s.has && t.as_bytes() == [s.tok] && e == s.exp,
    }
}
fn any_token() -> (u8, String) {
    let t: u8 = kani::any();
    kani::assume(t == b'a' || t == b'b' || t == b'c' || t == b'z');
    (t, tok_str(t))
}
fn owner(s: &[US; 2], t: u8) -> Option<usize> {
    if s[0].has && s[0].tok == t { Some(0) } else if s[1].has && s[1].tok == t { Some(1) } else { None }
}

macro_rules! harness {
    ($name:ident, $body:block) => {
        #[kani::proof]
        #[kani::unwind(6)]
        #[kani::stub(std::time::SystemTime::now, stub_now)]
        #[kani::stub(crate::session::Session::create_with_lifetime, stub_create_with_lifetime)]
        pub fn $name() $body
    };
}

harness!(c17_get_uid_by_token, {
    let (p, s, now) = arbitrary();
    let (t, ts) = any_token();
    let r = p.get_uid_by_token(&ts);
    match owner(&s, t) {
        Some(i) if live(&s[i], now) => assert!(matches!(&r, Ok(u) if u.as_bytes() == if i == 0 { b"u0" } else { b"u1" }), "a live token authenticates exactly the user it was issued to"),
        _ => assert!(matches!(r, Err(AuthError::InvalidToken)), "an unknown or expired token is rejected"),
    }
    assert!(unchanged(&p, 0, &s[0]) && unchanged(&p, 1, &s[1]), "lookup changes nothing");
    kani::cover!(r.is_ok(), "a token can authenticate");
});

harness!(c17_refresh_session, {
    let (mut p, s, now) = arbitrary();
    let (t, ts) = any_token();
    let refresh = p.config.default_refresh_lifetime;
    let r = p.refresh_session(&ts);
    match owner(&s, t) {
        Some(i) if live(&s[i], now) => {
            assert!(r.is_ok(), "a live token can be refreshed");
            assert!(matches!(view(&p, i), Some((tk, e)) if tk.as_bytes() == [t] && e == now + refresh), "refresh extends exactly that session");
            assert!(unchanged(&p, 1 - i, &s[1 - i]), "the other user is untouched");
        }
        _ => {
            assert!(matches!(r, Err(AuthError::InvalidToken)), "an expired or unknown token is rejected by refresh");
            assert!(unchanged(&p, 0, &s[0]) && unchanged(&p, 1, &s[1]), "a rejected refresh changes nothing (an expired session is not revived)");
        }
    }
    kani::cover!(r.is_ok(), "refresh can succeed");
});

harness!(c17_create_session, {
    let (mut p, s, now) = arbitrary();
    let which: u8 = kani::any();
    kani::assume(which < 3);
    let uid = if which == 0 { "u0" } else if which == 1 { "u1" } else { "nobody" };
    let lifetime = p.config.default_lifetime;
    let r = p.create_session(uid);
    if which == 2 {
        assert!(matches!(r, Err(AuthError::UserNotFound)), "unknown user");
        assert!(unchanged(&p, 0, &s[0]) && unchanged(&p, 1, &s[1]));
    } else {
        let i = which as usize;
        if live(&s[i], now) {
            assert!(matches!(r, Err(AuthError::SessionAlreadyExists)), "a user has at most one live session");
            assert!(unchanged(&p, i, &s[i]), "the live session is kept");
        } else {
            match &r {
                Ok(tok) => {
                    assert!(tok.as_bytes()[0] == b'F', "the new token is a fresh one");
                    assert!(matches!(view(&p, i), Some((tk, e)) if &tk == tok && e == now + lifetime), "the new session is installed with the configured lifetime");
                    // the token now authenticates its owner (if the lifetime is non-zero) and nobody else
                    let who = p.get_uid_by_token(tok);
                    if lifetime > 0 { assert!(matches!(&who, Ok(u) if u == uid), "the issued token authenticates its owner"); }
                    else { assert!(who.is_err(), "lifetime 0 = already expired"); }
                }
                Err(_) => assert!(false, "a user without a live session gets one"),
            }
        }
        assert!(unchanged(&p, 1 - i, &s[1 - i]), "the other user is untouched");
    }
    kani::cover!(r.is_ok(), "a session can be created");
});

harness!(c17_invalidate_session, {
    let (mut p, s, _now) = arbitrary();
    let (t, ts) = any_token();
    p.invalidate_session(&ts);
    match owner(&s, t) {
        Some(i) => {
            assert!(view(&p, i).is_none(), "the invalidated session is gone");
            assert!(unchanged(&p, 1 - i, &s[1 - i]), "the other user is untouched");
            assert!(p.get_uid_by_token(&ts).is_err(), "an invalidated token no longer authenticates");
        }
        None => assert!(unchanged(&p, 0, &s[0]) && unchanged(&p, 1, &s[1]), "an unknown token invalidates nothing"),
    }
});

harness!(c17_invalidate_user_session, {
    let (mut p, s, _now) = arbitrary();
    let i: usize = if kani::any() { 0 } else { 1 };
    p.invalidate_user_session(if i == 0 { "u0" } else { "u1" });
    assert!(view(&p, i).is_none(), "the user's session is gone");
    assert!(unchanged(&p, 1 - i, &s[1 - i]), "the other user is untouched");
    if s[i].has { assert!(p.get_uid_by_token(tok_str(s[i].tok)).is_err(), "its token no longer authenticates"); }
});

harness!(c17_remove_user, {
    let (mut p, s, _now) = arbitrary();
    let i: usize = if kani::any() { 0 } else { 1 };
    let r = p.remove_user(if i == 0 { "u0" } else { "u1" });
    assert!(r.is_ok());
    assert!(p.users.len() == 1, "exactly one user is removed");
    assert!(p.users[0].uid.as_bytes() == if i == 0 { b"u1" } else { b"u0" }, "and it is that user");
    assert!(unchanged(&p, 1 - i, &s[1 - i]), "the other user is untouched");
});

/// Session::valid / expired / refresh against the clock, every expiry and clock value.
harness!(c17_session_clock, {
    let now: u64 = kani::any();
    kani::assume(now < (1u64 << 40));
    unsafe { gh::NOW = now; }
    let exp: u64 = kani::any();
    let mut s = Session { token: String::new(), expiry: exp };
    assert!(s.valid() == (now < exp), "valid() <=> now < expiry");
    assert!(s.expired() == (exp < now));
    let l: u64 = kani::any();
    kani::assume(l < (1u64 << 32));
    s.refresh(l);
    assert!(s.expiry == now + l, "refresh sets expiry = now + lifetime");
});

#[cfg(test)]
mod playback {
    include!(concat!(env!("HUMPHREY_VERIF"), "/build/playback/in_auth_playback.rs"));
}
#[cfg(test)]
mod playback {
    include!(concat!(env!("HUMPHREY_VERIF"), "/build/playback/in_auth_playback.rs"));
}
