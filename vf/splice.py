"""Contract files (*.vrs) -> generated single-file Verus input.

A .vrs file is a sequence of sections introduced by `//@` directive lines:

  //@ uses                      rust `use` lines placed outside verus!{}
  //@ verbatim                  verus text (spec fns, lemmas, shims, wrappers such as `impl X {` / `}`)
  //@ extract <repo file> :: <item spec>     copy that item VERBATIM from /repo's working tree
      //@ rename <old> => <new>              token-text replacement (the rename table of DESIGN 2.1)
      //@ ret <name>                         `-> T` becomes `-> (name: T)`
      //@ nopub                              do not force `pub` (needed inside trait impls)
      //@ pubfields                          struct: make every field `pub`
      //@ spec                               following lines go between signature and body
      //@ at <anchor>                        following lines are inserted at the anchor
      //@ closure#N |typed params| -> (r: T) the N-th closure of the fn gets explicit parameter types, a named result and the
                                             following requires/ensures lines; an expression body is wrapped in `{ }`.
                                             The closure's body text is unchanged (Verus does not infer closure contracts).
  //@ end

Anchors (all structural, resolved on the token stream of the *current* repository text):
  fn:start | fn:end
  loop#N:spec | loop#N:body-start | loop#N:body-end | loop#N:before      (also while#N, for#N)
  for#N:iter <name>              (inserts `<name>: ` after `in`; Verus' ghost iterator name)
  if#K:before | if#K:then-start | if#K:then-end | if#K:else-start
  before:/regex/ | after:/regex/           (regex on the function text, must match exactly once)

Everything inserted is ghost text (requires/ensures/invariant/decreases/proof/let ghost/assert);
Verus' mode checker rejects ghost code that influences executable state.
"""
import hashlib
import os
import re

from . import rustlex
from .rustlex import IDENT, PUNCT, match_close


class LostAnchor(Exception):
    """An anchor / item of a contract no longer exists in the repository text -> UNDECIDED."""


class Section:
    def __init__(self, kind, arg=""):
        self.kind, self.arg = kind, arg
        self.lines = []
        self.subs = []  # for extract: list of (directive, arg, lines)


def parse_vrs(text):
    secs = []
    cur = None
    sub = None
    for ln in text.split("\n"):
        m = re.match(r"\s*//@\s*(\S+)\s*(.*)$", ln)
        if not m:
            if sub is not None: sub[2].append(ln)
            elif cur is not None: cur.lines.append(ln)
            continue
        d, arg = m.group(1), m.group(2).strip()
        if d in ("uses", "verbatim"):
            cur = Section(d); secs.append(cur); sub = None
        elif d == "extract":
            cur = Section("extract", arg); secs.append(cur); sub = None
        elif d == "end":
            cur = None; sub = None
        elif d in ("rename", "ret", "nopub", "pubfields", "spec", "at", "optional-rename") or d.startswith("closure#"):
            if cur is None or cur.kind != "extract":
                raise ValueError("directive %s outside extract" % d)
            sub = [d, arg, []]
            cur.subs.append(sub)
        elif d == "option":
            o = Section("option", arg); secs.append(o)
        elif d == "unit" or d == "#":
            pass
        else:
            raise ValueError("unknown directive //@ %s" % d)
    return secs


_src_cache = {}


def load_source(repo, rel):
    key = (repo, rel)
    p = os.path.join(repo, rel)
    text = open(p, encoding="utf-8").read()
    if key not in _src_cache or _src_cache[key].text != text:
        _src_cache[key] = rustlex.Source(rel, text)
    return _src_cache[key]


def _loops_and_ifs(S, item):
    """Return dicts for anchors inside a fn item: loops[(kw,n)] = dict(kw_off, open_off, close_off, in_off)."""
    ct = S.ct
    lo, hi = item.ct_range
    # body open brace index
    bi = None
    for i in range(lo, hi):
        if ct[i].start == item.body[0]: bi = i; break
    loops, ifs = {}, {}
    counts = {"loop": 0, "while": 0, "for": 0}
    nif = 0
    i = bi + 1
    end = hi - 1
    while i < end:
        t = ct[i]
        if t.kind == IDENT and t.text in ("loop", "while", "for"):
            if t.text == "for" and ct[i + 1].text == "<":  # for<'a> HRTB
                i += 1; continue
            j = i + 1
            in_off = None
            while ct[j].text != "{":
                if ct[j].text in ("(", "["): j = match_close(ct, j)
                elif t.text == "for" and ct[j].kind == IDENT and ct[j].text == "in" and in_off is None:
                    in_off = ct[j].end
                j += 1
            e = match_close(ct, j)
            counts[t.text] += 1
            # include a loop label `'a:` in "before"
            b = t.start
            if i >= 2 and ct[i - 1].text == ":" and ct[i - 2].kind == rustlex.LIFETIME:
                b = ct[i - 2].start
            loops[(t.text, counts[t.text])] = dict(before=b, spec=ct[j].start, body_start=ct[j].end,
                                                    body_end=ct[e].start, in_off=in_off)
        elif t.kind == IDENT and t.text == "if":
            j = i + 1
            while ct[j].text != "{":
                if ct[j].text in ("(", "["): j = match_close(ct, j)
                j += 1
            e = match_close(ct, j)
            nif += 1
            d = dict(before=t.start, then_start=ct[j].end, then_end=ct[e].start, else_start=None)
            if i >= 1 and ct[i - 1].kind == IDENT and ct[i - 1].text == "else":
                d["before"] = None  # `else if`: no statement position
            if e + 2 < hi and ct[e + 1].text == "else" and ct[e + 2].text == "{":
                d["else_start"] = ct[e + 2].end
            ifs[nif] = d
        i += 1
    return loops, ifs


def _closures(S, item):
    """Closures of a fn body in source order: dicts bar_start, bar_end (span of `|params|`), params (text), body (start, end), block."""
    ct = S.ct
    lo, hi = item.ct_range
    bi = next(i for i in range(lo, hi) if ct[i].start == item.body[0])
    out = []
    i = bi + 1
    while i < hi - 1:
        t = ct[i]
        if t.kind == PUNCT and t.text == "|" and (ct[i - 1].text in ("(", ",", "=", "{", ";", "move", "return")):
            if ct[i + 1].text == "|" and ct[i + 1].start == t.end:
                pe = i + 1
            else:
                pe = i + 1
                while ct[pe].text != "|":
                    if ct[pe].text in ("(", "["): pe = match_close(ct, pe)
                    pe += 1
            if ct[pe + 1].text == "{":
                be = match_close(ct, pe + 1)
                body, block, nxt = (ct[pe + 1].start, ct[be].end), True, be + 1
            else:
                j = pe + 1
                while not (ct[j].kind == PUNCT and ct[j].text in (",", ")", "]", "}", ";")):
                    if ct[j].text in ("(", "[", "{"): j = match_close(ct, j)
                    j += 1
                body, block, nxt = (ct[pe + 1].start, ct[j - 1].end), False, pe + 1
            out.append(dict(bar_start=t.start, bar_end=ct[pe].end, params=S.text[t.end:ct[pe].start], body=body, block=block))
            i = nxt
            continue
        i += 1
    return out


def _sig_edits(S, item, ret_name, nopub, spec_text):
    """Edits on the signature: visibility normalisation, return naming, spec insertion."""
    ct = S.ct
    lo, hi = item.ct_range
    edits = []
    i = lo
    # visibility
    if ct[i].text == "pub":
        if ct[i + 1].text == "(":
            e = match_close(ct, i + 1)
            edits.append((ct[i + 1].start, ct[e].end, ""))
    elif not nopub:
        edits.append((ct[i].start, ct[i].start, "pub "))
    # find fn params close
    k = i
    while not (ct[k].kind == IDENT and ct[k].text == "fn"): k += 1
    j = k + 2
    if ct[j].text == "<":
        depth = 0
        while True:
            if ct[j].text == "<": depth += 1
            elif ct[j].text == ">":
                if ct[j - 1].text != "-": depth -= 1
                if depth == 0: break
            j += 1
        j += 1
    assert ct[j].text == "(", (ct[j], item)
    pe = match_close(ct, j)
    body_open = item.body[0] if item.body else item.end - 1
    if ret_name:
        if ct[pe + 1].text == "-" and ct[pe + 2].text == ">":
            rs = ct[pe + 3].start
            # return type ends at `where` (depth 0) or at body
            q = pe + 3
            re_ = None
            while ct[q].start < body_open:
                if ct[q].text in ("(", "["): q = match_close(ct, q)
                elif ct[q].kind == IDENT and ct[q].text == "where":
                    re_ = ct[q - 1].end; break
                q += 1
            if re_ is None:
                re_ = ct[q - 1].end
            edits.append((rs, rs, "(%s: " % ret_name))
            edits.append((re_, re_, ")"))
    if spec_text.strip():
        edits.append((body_open, body_open, "\n" + spec_text.rstrip() + "\n"))
    return edits


def _anchor_offset(S, item, loops, ifs, anchor):
    m = re.match(r"(loop|while|for)#(\d+):(spec|body-start|body-end|before)$", anchor)
    if m:
        key = (m.group(1), int(m.group(2)))
        if key not in loops: raise LostAnchor("%s in %s" % (anchor, item.name))
        return loops[key][m.group(3).replace("-", "_")]
    m = re.match(r"if#(\d+):(before|then-start|then-end|else-start)$", anchor)
    if m:
        k = int(m.group(1))
        if k not in ifs: raise LostAnchor("%s in %s" % (anchor, item.name))
        off = ifs[k][m.group(2).replace("-", "_")]
        if off is None: raise LostAnchor("%s in %s (no such position)" % (anchor, item.name))
        return off
    if anchor == "fn:start": return item.body[0] + 1
    if anchor == "fn:end": return item.body[1]
    if anchor == "fn:before-result":
        ct = S.ct
        lo, hi = item.ct_range
        bi = next(i for i in range(lo, hi) if ct[i].start == item.body[0])
        e = match_close(ct, bi)
        pos, i = ct[bi].end, bi + 1
        while i < e:
            if ct[i].text in ("(", "[", "{"):
                j = match_close(ct, i)
                if ct[i].text == "{" and j + 1 < e and ct[j + 1].text not in (".", "?", ";", "else") and ct[j + 1].kind != rustlex.PUNCT:
                    pos = ct[j].end
                i = j
            elif ct[i].text == ";":
                pos = ct[i].end
            i += 1
        return pos
    m = re.match(r"(before|after):/(.*)/$", anchor)
    if m:
        body = S.text[item.body[0]:item.body[1]]
        hits = list(re.finditer(m.group(2), body))
        if len(hits) != 1:
            raise LostAnchor("%s in %s: %d matches" % (anchor, item.name, len(hits)))
        h = hits[0]
        return item.body[0] + (h.start() if m.group(1) == "before" else h.end())
    raise ValueError("bad anchor %r" % anchor)


class Generated:
    def __init__(self):
        self.parts = []      # (text, origin) origin = (rel, src_offset) | None
        self.items = []      # dicts: file, spec, sha256, lines
        self.rewrites = []   # human-readable list of rewrites actually applied

    def add(self, text, origin=None):
        if text: self.parts.append((text, origin))

    def render(self, sources):
        out = []
        linemap = {}
        line = 1
        for text, origin in self.parts:
            if origin is not None:
                rel, off = origin
                S = sources[rel]
                sl = S.line_of(off)
                # every generated line that contains text of this part maps to the source line
                for k, seg in enumerate(text.split("\n")):
                    if seg.strip():
                        linemap.setdefault(line + k, (rel, sl + k))
            line += text.count("\n")
            out.append(text)
        return "".join(out), linemap


def extract_item(gen, repo, sec, sources):
    rel, _, spec = sec.arg.partition("::")
    rel, spec = rel.strip(), spec.strip()
    try:
        S = load_source(repo, rel)
    except (OSError, rustlex.LexError) as e:
        raise LostAnchor("cannot read/lex %s: %s" % (rel, e))
    sources[rel] = S
    try:
        item = S.find(spec)
    except KeyError as e:
        raise LostAnchor(str(e))
    ret_name, nopub, pubfields, spec_text = None, False, False, ""
    renames, ats, closures = [], [], []
    for d, arg, lines in sec.subs:
        if d == "ret": ret_name = arg
        elif d == "nopub": nopub = True
        elif d == "pubfields": pubfields = True
        elif d == "spec": spec_text = "\n".join(lines)
        elif d in ("rename", "optional-rename"):
            a, _, b = arg.partition("=>")
            renames.append((a.strip(), b.strip()))
        elif d == "at": ats.append((arg, "\n".join(lines)))
        elif d.startswith("closure#"): closures.append((int(d[8:]), arg, "\n".join(lines)))
    edits = []
    if item.kind == "fn":
        edits += _sig_edits(S, item, ret_name, nopub, spec_text)
        if item.body is None and ats: raise LostAnchor("fn %s has no body" % item.name)
        loops, ifs = _loops_and_ifs(S, item) if item.body else ({}, {})
        for anchor, text in ats:
            m = re.match(r"for#(\d+):iter\s+(\w+)$", anchor)
            if m:
                key = ("for", int(m.group(1)))
                if key not in loops or loops[key]["in_off"] is None:
                    raise LostAnchor("%s in %s" % (anchor, item.name))
                off = loops[key]["in_off"]
                edits.append((off, off, " %s:" % m.group(2)))
                continue
            off = _anchor_offset(S, item, loops, ifs, anchor)
            edits.append((off, off, "\n" + text.rstrip() + "\n"))
        if closures:
            found = _closures(S, item)
            for n, header, text in closures:
                if n > len(found): raise LostAnchor("closure#%d in %s" % (n, item.name))
                c = found[n - 1]
                m = re.match(r"\|(.*)\|\s*->\s*\((.*)\)\s*$", header)
                if not m: raise ValueError("bad closure header %r" % header)
                want = set(re.findall(r"[A-Za-z_]\w*", re.sub(r":[^,|]*", "", m.group(1))))
                have = set(x for x in re.findall(r"[A-Za-z_]\w*", c["params"]) if x != "mut")
                if not have <= want:
                    raise LostAnchor("closure#%d in %s: parameters changed (%s)" % (n, item.name, c["params"].strip()))
                edits.append((c["bar_start"], c["bar_end"], "|%s| -> (%s)\n%s\n" % (m.group(1), m.group(2), text.rstrip())))
                if not c["block"]:
                    edits.append((c["body"][0], c["body"][0], "{ "))
                    edits.append((c["body"][1], c["body"][1], " }"))
                gen.rewrites.append("%s: closure #%d `|%s|` given explicit parameter types, a named result and a contract (body text unchanged) at %s:%d"
                                    % (spec, n, c["params"].strip(), rel, S.line_of(c["bar_start"])))
    else:
        ct = S.ct
        lo, hi = item.ct_range
        i = lo
        if ct[i].text == "pub":
            if ct[i + 1].text == "(":
                e = match_close(ct, i + 1)
                edits.append((ct[i + 1].start, ct[e].end, ""))
        elif not nopub and item.kind in ("struct", "enum", "const", "static", "trait", "type"):
            edits.append((ct[i].start, ct[i].start, "pub "))
        if pubfields and item.kind == "struct" and item.body:
            # fields: token after `{` or after a depth-1 `,`
            j = lo
            while ct[j].start != item.body[0]: j += 1
            e = match_close(ct, j)
            k = j + 1
            start_field = True
            while k < e:
                if start_field:
                    # skip attributes
                    while ct[k].text == "#":
                        k = match_close(ct, k + 1) + 1
                    if k >= e: break
                    if ct[k].text == "pub":
                        if ct[k + 1].text == "(":
                            ee = match_close(ct, k + 1)
                            edits.append((ct[k + 1].start, ct[ee].end, ""))
                    else:
                        edits.append((ct[k].start, ct[k].start, "pub "))
                    start_field = False
                if ct[k].text in ("(", "[", "{"): k = match_close(ct, k)
                elif ct[k].text == "<":
                    pass
                elif ct[k].text == ",":
                    start_field = True
                k += 1
        if spec_text.strip() or ats:
            raise ValueError("spec/at on non-fn item %s" % spec)
    # compound `%=` / `/=` on a plain variable are desugared (`x %= e;` -> `x = x % (e);`): the Verus front end rejects
    # the compound form on signed integers ("div/mod on signed finite-width integers") although it accepts `%`; the
    # two forms are the same expression for primitive integers.
    if item.kind == "fn" and item.body:
        ct = S.ct
        lo, hi = item.ct_range
        for i in range(lo + 1, hi - 2):
            if ct[i].kind == PUNCT and ct[i].text in ("%", "/") and ct[i + 1].text == "=" and ct[i + 1].start == ct[i].end \
                    and ct[i - 1].kind == IDENT and ct[i - 2].text in (";", "{", "}") and ct[i + 2].text != "=":
                j = i + 2
                while j < hi and ct[j].text != ";":
                    if ct[j].text in ("(", "[", "{"): j = match_close(ct, j)
                    j += 1
                if j >= hi: continue
                var = ct[i - 1].text
                edits.append((ct[i].start, ct[i + 1].end, "= %s %s (" % (var, ct[i].text)))
                edits.append((ct[j].start, ct[j].start, ")"))
                gen.rewrites.append("%s: `%s %s= e` desugared to `%s = %s %s (e)` at %s:%d" % (spec, var, ct[i].text, var, var, ct[i].text, rel, S.line_of(ct[i].start)))
    # renames: textual, on code tokens only (never inside strings/comments)
    for old, new in renames:
        pat = re.compile(re.escape(old))
        for m in pat.finditer(S.text, item.kw_start, item.end):
            # reject matches inside string/char/comment tokens
            tk = next((t for t in S.toks if t.start <= m.start() < t.end), None)
            if tk is not None and tk.kind in (rustlex.STR, rustlex.CHAR, rustlex.COMMENT):
                continue
            edits.append((m.start(), m.end(), new))
            gen.rewrites.append("%s: `%s` -> `%s` at %s:%d" % (spec, old, new, rel, S.line_of(m.start())))
    # assemble
    spans = rustlex.strip_attrs_docs(S, item.kw_start, item.end)
    edits.sort(key=lambda e: (e[0], e[1]))
    raw = S.text[item.kw_start:item.end]
    gen.items.append(dict(file=rel, item=spec, line=S.line_of(item.kw_start),
                          sha256=hashlib.sha256(raw.encode()).hexdigest(), bytes=len(raw)))
    ei = 0
    for s, e in spans:
        cur = s
        while ei < len(edits) and edits[ei][0] < e:
            a, b, txt = edits[ei]
            if a < cur:
                ei += 1; continue  # edit inside a dropped span
            gen.add(S.text[cur:a], (rel, cur))
            gen.add(txt, None)
            cur = max(cur, b)
            ei += 1
        gen.add(S.text[cur:e], (rel, cur))
    # edits exactly at the end
    while ei < len(edits):
        gen.add(edits[ei][2], None); ei += 1
    gen.add("\n", None)


def generate(repo, vrs_path):
    """Returns (text, linemap, gen) or raises LostAnchor."""
    secs = parse_vrs(open(vrs_path, encoding="utf-8").read())
    gen = Generated()
    gen.options = dict(s.arg.split(None, 1) for s in secs if s.kind == "option")
    sources = {}
    gen.add("// GENERATED by /verif/vf from %s and /repo's working tree -- do not edit\n" % os.path.basename(vrs_path))
    for f in gen.options.get("feature", "").split():
        gen.add("#![feature(%s)]\n" % f)
    gen.add("#![allow(unused_imports, unused_variables, unused_mut, dead_code, unused_parens, unused_assignments, non_snake_case)]\nuse vstd::prelude::*;\n")
    for s in secs:
        if s.kind == "uses":
            gen.add("\n".join(s.lines) + "\n")
    gen.add("verus! {\n")
    for s in secs:
        if s.kind == "verbatim":
            gen.add("\n".join(s.lines) + "\n")
        elif s.kind == "extract":
            extract_item(gen, repo, s, sources)
    gen.add("\nproof fn vf_canary() ensures false {}\n")
    gen.add("} // verus!\nfn main() {}\n")
    text, linemap = gen.render(sources)
    return text, linemap, gen
