// FEASIBILITY SKETCH (design phase) — not part of the check.
// frame.rs `From<Frame> for Vec<u8>::from`: body verbatim from /repo (re-homed as a free fn, `.to_be_bytes()` renamed to
// the trusted shim) proved equal to the RFC 6455 5.2 layout spec for every frame, any payload length. 7 verified, 4.6 s.
use vstd::prelude::*;

verus! {

pub struct Frame {
    pub fin: bool,
    pub rsv: [bool; 3],
    pub opcode: Opcode,
    pub mask: bool,
    pub length: u64,
    pub masking_key: [u8; 4],
    pub payload: Vec<u8>,
}

#[repr(u8)]
#[derive(Clone, Copy)]
pub enum Opcode {
    Continuation = 0x0,
    Text = 0x1,
    Binary = 0x2,
    Close = 0x8,
    Ping = 0x9,
    Pong = 0xA,
}

// ---- trusted shim for `.to_be_bytes()` (renamed call) ----
pub open spec fn be_bytes(x: nat, n: nat) -> Seq<u8> decreases n { if n == 0 { Seq::empty() } else { be_bytes(x / 256, (n - 1) as nat).push((x % 256) as u8) } }
pub trait VfBe { type Out; fn vf_to_be_bytes(self) -> Self::Out; }
impl VfBe for u16 { type Out = [u8; 2];
  #[verifier::external_body] fn vf_to_be_bytes(self) -> (r: [u8; 2]) ensures r@ == be_bytes(self as nat, 2) { self.to_be_bytes() } }
impl VfBe for u64 { type Out = [u8; 8];
  #[verifier::external_body] fn vf_to_be_bytes(self) -> (r: [u8; 8]) ensures r@ == be_bytes(self as nat, 8) { self.to_be_bytes() } }

// ---- RFC 6455 5.2 layout ----
pub open spec fn opcode_val(o: Opcode) -> nat { match o { Opcode::Continuation => 0, Opcode::Text => 1, Opcode::Binary => 2, Opcode::Close => 8, Opcode::Ping => 9, Opcode::Pong => 10 } }
pub open spec fn b2n(b: bool) -> nat { if b { 1 } else { 0 } }
pub open spec fn hdr0(f: Frame) -> nat { 128 * b2n(f.fin) + 64 * b2n(f.rsv[0]) + 32 * b2n(f.rsv[1]) + 16 * b2n(f.rsv[2]) + opcode_val(f.opcode) }
pub open spec fn layout(f: Frame) -> Seq<u8> {
  let m = 128 * b2n(f.mask);
  let head = if f.length < 126 { seq![hdr0(f) as u8, (m + f.length) as u8] }
             else if f.length < 65536 { seq![hdr0(f) as u8, (m + 126) as u8] + be_bytes(f.length as nat, 2) }
             else { seq![hdr0(f) as u8, (m + 127) as u8] + be_bytes(f.length as nat, 8) };
  let key = if f.mask { f.masking_key@ } else { Seq::<u8>::empty() };
  head + key + f.payload@
}

pub proof fn lemma_hdr_bits(fin: bool, r0: bool, r1: bool, r2: bool, op: u8)
    requires op < 16
    ensures ((fin as u8) << 7 | (r0 as u8) << 6 | (r1 as u8) << 5 | (r2 as u8) << 4 | op) as nat
            == 128 * b2n(fin) + 64 * b2n(r0) + 32 * b2n(r1) + 16 * b2n(r2) + op as nat
{
    let a: u8 = fin as u8; let b: u8 = r0 as u8; let c: u8 = r1 as u8; let d: u8 = r2 as u8;
    assert((a << 7 | b << 6 | c << 5 | d << 4 | op) == 128 * a + 64 * b + 32 * c + 16 * d + op) by (bit_vector)
        requires a <= 1, b <= 1, c <= 1, d <= 1, op < 16;
}
pub proof fn lemma_len_bits(mask: bool, l: u8)
    requires l < 128
    ensures ((mask as u8) << 7 | l) as nat == 128 * b2n(mask) + l as nat
{
    let a: u8 = mask as u8;
    assert((a << 7 | l) == 128 * a + l) by (bit_vector) requires a <= 1, l < 128;
}

pub fn encode(f: Frame) -> (buf: Vec<u8>)
    requires f.length == f.payload@.len()
    ensures buf@ == layout(f)
{
        let mut buf: Vec<u8> = vec![0; 2];

        proof {
            lemma_hdr_bits(f.fin, f.rsv[0], f.rsv[1], f.rsv[2], f.opcode as u8);
            lemma_len_bits(f.mask, 126); lemma_len_bits(f.mask, 127);
            if f.length < 126 { lemma_len_bits(f.mask, f.length as u8); }
        }
        // Set the header bits
        buf[0] = (f.fin as u8) << 7
            | (f.rsv[0] as u8) << 6
            | (f.rsv[1] as u8) << 5
            | (f.rsv[2] as u8) << 4
            | f.opcode as u8;

        // Set the length information
        if f.length < 126 {
            buf[1] = (f.mask as u8) << 7 | f.length as u8;
        } else if f.length < 65536 {
            buf[1] = (f.mask as u8) << 7 | 126;
            buf.extend_from_slice(&(f.length as u16).vf_to_be_bytes());
        } else {
            buf[1] = (f.mask as u8) << 7 | 127;
            buf.extend_from_slice(&(f.length).vf_to_be_bytes());
        }

        // Add the masking key (if required)
        if f.mask {
            buf.extend_from_slice(&f.masking_key);
        }

        // Add the payload and return
        buf.extend_from_slice(&f.payload);

        proof { assert(buf@ =~= layout(f)); }
        buf
}

}
fn main() {}
