#!/bin/sh
# dev helper: confirm an agent-produced seeded change in its scratch worktree and store it under /verif/seeded/<name>/
# usage: confirm_seed.sh <name> <property> "<demo install cmd>" "<demo run cmd>"
N=$1; PID=$2; INST=$3; RUN=$4
W=/tmp/agents/$N; OUT=/verif/build/seedlogs/confirm.$N.log
cd $W || exit 9
git checkout -- . ; git clean -fdq -e SEED
{
echo "## apply"; git apply SEED/patch.diff && echo applied
echo "## build"; cargo build --workspace --offline 2>&1 | tail -2; 
echo "## existing tests with patch"; cargo test --workspace --no-fail-fast --offline 2>&1 | grep -E "^test result|FAILED|failed" | head -30
echo "## demo with patch"; sh -c "$INST" ; sh -c "$RUN" 2>&1 | grep -E "^test |test result|panicked" | head -20; echo "demo_rc_with=$?"
sh -c "$RUN" >/dev/null 2>&1; echo "DEMO_WITH_RC=$?"
echo "## demo without patch"; git apply -R SEED/patch.diff; sh -c "$RUN" 2>&1 | grep -E "^test |test result|panicked" | head -20
sh -c "$RUN" >/dev/null 2>&1; echo "DEMO_WITHOUT_RC=$?"
} > $OUT 2>&1
git checkout -- . ; git clean -fdq -e SEED
mkdir -p /verif/seeded/$N
cp SEED/patch.diff /verif/seeded/$N/patch.diff
rm -rf /verif/seeded/$N/demo; cp -r SEED/demo /verif/seeded/$N/demo
python3 - "$N" "$PID" "$INST" "$RUN" "$OUT" <<'PY'
import json,sys,re
n,pid,inst,run,out=sys.argv[1:6]
am=json.load(open('/tmp/agents/%s/SEED/meta.json'%n))
log=open(out).read()
meta=dict(property=pid, breaks=am.get('summary'), needs_to_manifest=am.get('needs'), authored_by='independent sub-agent given only the property text and a scratch worktree',
  confirmed_by_me=dict(worktree='/tmp/agents/%s (removed afterwards)'%n, commands=['git apply SEED/patch.diff','cargo build --workspace --offline','cargo test --workspace --no-fail-fast --offline',inst,run,'git apply -R SEED/patch.diff',run],
     existing_tests_failing_with_patch=sorted(set(re.findall(r'^test (\S+) \.\.\. FAILED',log,re.M)) | set(re.findall(r'^    (tests::\S+)$',log,re.M))),
     demo_rc_with_patch=re.findall(r'DEMO_WITH_RC=(\d+)',log), demo_rc_without_patch=re.findall(r'DEMO_WITHOUT_RC=(\d+)',log)),
  agent_meta=am)
json.dump(meta,open('/verif/seeded/%s/meta.json'%n,'w'),indent=1)
PY
grep -E "applied|DEMO_|^test result.*FAILED|Finished|error" $OUT | head
