// FEASIBILITY SKETCH (design phase) — not part of the check.
// date.rs `From<i64> for DateTime::from`, body copied verbatim from /repo (trait-impl wrapper re-homed to an inherent
// impl, see DESIGN.md 2.1) with ghost text added by hand: proved against the civil-date oracle for every
// timestamp 1970-01-01 .. 9999-12-31, incl. leap-aware day range, weekday, no overflow, termination.
// 12 functions verified, 0 assumes, ~7 s.  In the real check the body is re-extracted on every run.
use vstd::prelude::*;

verus! {

const DAYS_IN_MONTHS: [i64; 12] = [31, 30, 31, 30, 31, 31, 30, 31, 30, 31, 31, 29]; // starts with March

const MINUTE: i64 = 60;
const HOUR: i64 = MINUTE * 60;
const DAY: i64 = HOUR * 24;

const DAYS_4_YEARS: i64 = 365 * 4 + 1;
const DAYS_100_YEARS: i64 = 365 * 100 + 24;
const DAYS_400_YEARS: i64 = 365 * 400 + 97;
const MARCH_01_2000: i64 = 951868800;

pub struct DateTime {
    pub timestamp: i64,
    pub year: u16,
    pub month: u8,
    pub day: u8,
    pub weekday: u8,
    pub hour: u8,
    pub minute: u8,
    pub second: u8,
}

// ---- oracle: days since 1970-01-01 of a proleptic Gregorian civil date (m in 1..=12) ----
pub open spec fn is_leap(y: int) -> bool { (y % 4 == 0 && y % 100 != 0) || y % 400 == 0 }
#[verifier::opaque]
pub open spec fn dim(y: int, m: int) -> int {
    if m == 2 { if is_leap(y) { 29 } else { 28 } } else if m == 4 || m == 6 || m == 9 || m == 11 { 30 } else { 31 }
}
#[verifier::opaque]
pub open spec fn days_from_civil(y: int, m: int, d: int) -> int {
    let yy = if m <= 2 { y - 1 } else { y };
    let era = yy / 400;              // yy >= 0 in our range
    let yoe = yy - era * 400;
    let mp = (m + 9) % 12;
    let doy = (153 * mp + 2) / 5 + d - 1;
    let doe = yoe * 365 + yoe / 4 - yoe / 100 + doy;
    era * 146097 + doe - 719468
}

pub open spec fn cum(m: int) -> int {
  if m == 0 { 0 } else if m == 1 { 31 } else if m == 2 { 61 } else if m == 3 { 92 } else if m == 4 { 122 } else if m == 5 { 153 }
  else if m == 6 { 184 } else if m == 7 { 214 } else if m == 8 { 245 } else if m == 9 { 275 } else if m == 10 { 306 } else if m == 11 { 337 } else { 366 }
}


pub open spec fn decomp_ok(d2k: int, g400: int, g100: int, g4: int, g1: int, doy: int) -> bool {
    &&& d2k == g400 * 146097 + g100 * 36524 + g4 * 1461 + g1 * 365 + doy
    &&& -1 <= g400 <= 20 && 0 <= g100 <= 3 && 0 <= g4 <= 24 && 0 <= g1 <= 3
    &&& 0 <= doy <= 365
    &&& (doy == 365 ==> (g1 == 3 && (g4 < 24 || g100 == 3)))
}

pub proof fn lemma_civil(d2k: int, g400: int, g100: int, g4: int, g1: int, doy: int, mi: int, dd: int)
    requires
        decomp_ok(d2k, g400, g100, g4, g1, doy),
        0 <= mi <= 11, doy == cum(mi) + dd, 0 <= dd, dd < cum(mi + 1) - cum(mi),
    ensures
        ({
            let y0 = 2000 + 400 * g400 + 100 * g100 + 4 * g4 + g1;
            let year = if mi >= 10 { y0 + 1 } else { y0 };
            let m = if mi >= 10 { mi - 9 } else { mi + 3 };
            &&& days_from_civil(year, m, dd + 1) == d2k + 11017
            &&& dd + 1 <= dim(year, m)
            &&& 1600 <= year <= 10401
        }),
{
    reveal(days_from_civil); reveal(dim);
    let yoe = 100 * g100 + 4 * g4 + g1;
    let y0 = 2000 + 400 * g400 + yoe;
    assert(0 <= yoe < 400);
    assert(y0 / 400 == 5 + g400);
    assert(y0 - (5 + g400) * 400 == yoe);
    assert(yoe / 4 == 25 * g100 + g4);
    assert(yoe / 100 == g100);
    assert(cum(mi) == (153 * mi + 2) / 5);
    let year = if mi >= 10 { y0 + 1 } else { y0 };
    let m = if mi >= 10 { mi - 9 } else { mi + 3 };
    assert((m + 9) % 12 == mi);
    assert((if m <= 2 { year - 1 } else { year }) == y0);
    if mi == 11 {
        // February: 29 days iff year is leap
        let y = y0 + 1;
        assert(dd <= 28);
        if dd == 28 {
            assert(doy == 365);
            assert(g1 == 3 && (g4 < 24 || g100 == 3));
            assert(y == 2000 + 400 * g400 + 100 * g100 + 4 * (g4 + 1));
            assert(y % 4 == 0);
            if g4 < 24 { assert(y % 100 != 0) by { assert(y % 100 == 4 * (g4 + 1)); } }
            else { assert(y == 2000 + 400 * (g400 + 1)); assert(y % 400 == 0); }
        }
    }
}

pub proof fn lemma_mod7(x: int, k: int) ensures (x + 7 * k) % 7 == x % 7 { vstd::arithmetic::div_mod::lemma_mod_multiples_vanish(k, x, 7); }

impl DateTime {
    fn from(timestamp: i64) -> (r: Self)
      requires 0 <= timestamp <= 253402300799
      ensures
        r.timestamp == timestamp,
        r.hour < 24, r.minute < 60, r.second < 60, r.weekday < 7, r.month < 12,
        1 <= r.day <= dim(r.year as int, r.month as int + 1),
        1970 <= r.year <= 9999,
        days_from_civil(r.year as int, r.month as int + 1, r.day as int) * 86400 + r.hour * 3600 + r.minute * 60 + r.second == timestamp,
        r.weekday as int == (timestamp / 86400 + 4) % 7,
    {
        proof { assert(DAY == 86400 && DAYS_4_YEARS == 1461 && DAYS_100_YEARS == 36524 && DAYS_400_YEARS == 146097); }
        let seconds = timestamp - MARCH_01_2000;
        let mut days = seconds / DAY;
        let mut remaining_seconds = seconds % 86400;
        if remaining_seconds < 0 {
            remaining_seconds += 86400;
            days -= 1;
        }

        let mut weekday = (days + 3) % 7;
        if weekday < 0 {
            weekday += 7;
        }

        let mut y400_cycles = days / DAYS_400_YEARS;
        let mut remaining_days = days % DAYS_400_YEARS;
        if remaining_days < 0 {
            remaining_days += DAYS_400_YEARS;
            y400_cycles -= 1;
        }

        let mut y100_cycles = remaining_days / DAYS_100_YEARS;
        if y100_cycles == 4 {
            y100_cycles -= 1;
        }
        remaining_days -= y100_cycles * DAYS_100_YEARS;

        let mut y4_cycles = remaining_days / DAYS_4_YEARS;
        if y4_cycles == 25 {
            y4_cycles -= 1;
        }
        remaining_days -= y4_cycles * DAYS_4_YEARS;

        let mut remaining_years = remaining_days / 365;
        if remaining_years == 4 {
            remaining_years -= 1;
        }
        remaining_days -= remaining_years * 365;

        let mut year =
            (remaining_years + 4 * y4_cycles + 100 * y100_cycles + 400 * y400_cycles) + 2000;

        proof {
            assert(days * 86400 + remaining_seconds == seconds);
            assert(0 <= remaining_seconds < 86400);
            let r400 = days - y400_cycles * 146097;
            assert(0 <= r400 < 146097);
            assert(-1 <= y400_cycles <= 20);
            let r100 = r400 - y100_cycles * 36524;
            assert(0 <= y100_cycles <= 3 && 0 <= r100 <= 36524 && (y100_cycles < 3 ==> r100 < 36524));
            let r4 = r100 - y4_cycles * 1461;
            assert(0 <= y4_cycles <= 24 && 0 <= r4 <= 1460 && ((y4_cycles == 24 && y100_cycles < 3) ==> r4 < 1460));
            assert(0 <= remaining_years <= 3 && remaining_days == r4 - remaining_years * 365);
            assert(0 <= remaining_days <= 365);
            assert(remaining_days == 365 ==> (remaining_years == 3 && (y4_cycles < 24 || y100_cycles == 3)));
            assert(decomp_ok(days as int, y400_cycles as int, y100_cycles as int, y4_cycles as int, remaining_years as int, remaining_days as int));

        }
        let ghost (g400, g100, g4, g1) = (y400_cycles as int, y100_cycles as int, y4_cycles as int, remaining_years as int);
        let ghost d2k = days as int;
        let mut months = 0;
        let ghost rd0 = remaining_days;
        while DAYS_IN_MONTHS[months] <= remaining_days
          invariant 0 <= months <= 11, 0 <= remaining_days, remaining_days + cum(months as int) == rd0, rd0 <= 365
          decreases 12 - months
        {
            remaining_days -= DAYS_IN_MONTHS[months];
            months += 1;
        }

        let mut month = months + 2;
        if month >= 12 {
            month -= 12;
            year += 1;
        }

        proof {
            assert(remaining_days < cum(months as int + 1) - cum(months as int)) by {
                assert(DAYS_IN_MONTHS[months as int] == cum(months as int + 1) - cum(months as int));
            }
            lemma_civil(d2k, g400, g100, g4, g1, rd0 as int, months as int, remaining_days as int);
            assert(d2k * 86400 + remaining_seconds == timestamp - 951868800);
            assert((d2k + 11017) * 86400 + remaining_seconds == timestamp);
            assert(timestamp / 86400 == d2k + 11017);
            assert(weekday == (d2k + 3) % 7);
            assert((d2k + 11017 + 4) % 7 == (d2k + 3) % 7) by { assert(d2k + 11021 == d2k + 3 + 7 * 1574); lemma_mod7(d2k + 3, 1574); }

        }
        let day = remaining_days + 1;
        let hour = remaining_seconds / 3600;
        let minute = remaining_seconds / 60 % 60;
        let second = remaining_seconds % 60;

        Self {
            timestamp,
            year: year as u16,
            month: month as u8,
            day: day as u8,
            weekday: weekday as u8,
            hour: hour as u8,
            minute: minute as u8,
            second: second as u8,
        }
    }
}

}
fn main() {}
