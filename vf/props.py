"""Per-property step lists. See DESIGN.md section 4."""
from .runner import H

PROPS = {}

PROPS["C05"] = dict(
    level="proof",
    steps=[
        dict(kind="verus", unit="c05_krauss", code_functions=["wildcard_match"],
             witness=dict(crate="humphrey", module="in_app", timeout=1800,
                          harnesses=["c05_witness_1x2", "c05_witness_2x2", "c05_witness_2x3", "c05_witness_3x3"])),
    ],
    assumptions=[
        "Peekable<Chars> is a cursor over str::chars(): peek = head, next = pop, clone = same position (assume_specification in contracts/c05_krauss.vrs)",
        "vstd's model of str as Seq<char> (str::chars, view)",
    ],
    not_covered=[],
)

_WS_DECODE_SMALL = [H("c10_decode_contract_n%02d" % n, "complete",
                      "decoder contract for EVERY input of exactly %d bytes: all 2^16 headers x every remainder; reserved opcode => InvalidOpcode, "
                      "short input => ReadError, else fields/unmasked payload/exact consumption per RFC 6455 5.2" % n,
                      bound="input length = %d bytes (complete for that length)" % n, timeout=900) for n in range(2, 9)]

PROPS["C10"] = dict(
    level="proof",
    steps=[
        dict(kind="verus", unit="c10_encode", code_functions=["from", "new", "to_frame"]),
        dict(kind="kani", crate="humphrey_ws", module="in_ws", tag="dec", jobs=8, harnesses=[
            H("c10_opcode_try_from_complete", "complete", "Opcode::try_from over all 256 byte values: exactly the six RFC opcodes are accepted and map back to their value"),
        ] + _WS_DECODE_SMALL + [
            H("c10_decode_exact_l%02d_m%d" % (l, m), "bounded",
              "decoder contract, any header bits/key/payload bytes, 7-bit form, payload length %d, mask=%d, 2 trailing bytes left unconsumed" % (l, m),
              bound="payload length %d" % l, timeout=300) for l in (5, 8, 12) for m in (0, 1)
        ] + [
            H("c10_decode_exact_f1_l3_m1", "bounded", "16-bit extended length form parsed (non-canonical short length 3), masked", bound="payload length 3", timeout=300),
            H("c10_decode_exact_f1_l4_m0", "bounded", "16-bit extended length form parsed (length 4), unmasked", bound="payload length 4", timeout=300),
            H("c10_decode_exact_f2_l3_m1", "bounded", "64-bit extended length form parsed (length 3), masked", bound="payload length 3", timeout=300),
            H("c10_roundtrip_l0_m0", "bounded", "decode(encode(f)) == f, real encoder and real decoder, empty payload, unmasked", bound="payload length 0", timeout=600),
            H("c10_roundtrip_l0_m1", "bounded", "decode(encode(f)) == f, empty payload, masked with any key", bound="payload length 0", timeout=600),
            H("c10_roundtrip_l5_m0", "bounded", "decode(encode(f)) == f, payload 5 bytes, unmasked", bound="payload length 5", timeout=600),
            H("c10_roundtrip_l5_m1", "bounded", "decode(encode(f)) == f with the payload unmasked on receipt, payload 5 bytes, any key", bound="payload length 5", timeout=600),
        ]),
    ],
    kani_functions=[dict(file="humphrey-ws/src/frame.rs", item="Frame::from_stream / from_stream_inner / Opcode::try_from", engine="kani")],
    assumptions=[
        "vf_to_be_bytes shim: (x as u16/u64).to_be_bytes() is the big-endian byte sequence (external_body in contracts/c10_encode.vrs)",
        "Read::read_exact contract (fills the buffer whatever the segmentation, or fails): the decoder harnesses use a reader that implements exactly this contract and treat a direct read() as an obligation failure; std's retry loop itself is not executed",
    ],
    not_covered=[
        "decoding of payloads longer than 12 bytes, in particular canonical 16-bit-form (>=126) and 64-bit-form (>=65536) payloads: CBMC exhausts 14 GB on a 126-byte symbolic payload (measured); those forms are decoded only with short non-canonical lengths",
        "the encoder side is unbounded (Verus), so round trip beyond 5-byte payloads follows only from encoder==layout (proved) plus decoder contract (bounded)",
    ],
)

PROPS["C03"] = dict(
    level="model_checking",
    steps=[
        dict(kind="kani", crate="humphrey_ws", module="in_ws", tag="c03", jobs=8, harnesses=[
            H("c03_ws_claimed_len_n10", "complete", "64-bit length form with ANY claimed length and nothing after the header: returns ReadError, no panic, no allocation proportional to the claim", bound="10-byte input (complete for that shape)", timeout=600),
            H("c03_ws_claimed_len_n14", "complete", "same with 4 more bytes supplied (key / partial payload)", bound="14-byte input", timeout=600),
        ] + [H(h.name, "complete", "no panic / returns for every input of that length (same harness as C10)", bound=h.bound, timeout=900) for h in _WS_DECODE_SMALL]),
    ],
    kani_functions=[dict(file="humphrey-ws/src/frame.rs", item="Frame::from_stream / from_stream_inner", engine="kani")],
    assumptions=["Vec growth through extend_from_slice is std's amortised doubling (allocation <= 2x bytes received + constant)"],
    not_covered=["HTTP request parser", "HTTP response parser", "JSON parser", "configuration parser (parse_conf)", "WebSocket inputs longer than 14 bytes"],
)

PROPS["C18"] = dict(
    level="proof",
    steps=[
        dict(kind="verus", unit="c18_date", code_functions=["from"]),
        dict(kind="verus", unit="c18_b64enc", code_functions=["encode"]),
    ],
    assumptions=[
        "ALPHABET[i] == RFC 4648 table-1 character i (external_body lemma alphabet_is_rfc; discharged on the real constant by Kani harness c18_b64_alphabet)",
        "AsRef<[u8]>::as_ref is a pure function of its argument (uninterpreted asref_spec)",
        "String::with_capacity returns the empty string",
    ],
    not_covered=[
        "IMF-fixdate text layout produced by format! in DateTime::to_string (neither verifier executes format!)",
        "percent-encode (format!-based)",
    ],
)

PROPS["C09"] = dict(
    level="proof",
    steps=[
        dict(kind="verus", unit="c09_lb", code_functions=["select_target", "next", "choose"]),
    ],
    assumptions=[
        "lb_wf: 0 < targets.len() < 2^32, index < len, and the LCG parameters do not overflow usize (true for Lcg::new() until seed > ~1.6e10, i.e. the system clock before year 2499)",
        "exclusive access to the LoadBalancer during select_target (&mut self under Mutex::lock): Rust's aliasing guarantee, not explored",
    ],
    not_covered=["wall-clock timeout behaviour", "Response::from_stream (HTTP response parser) returning rather than panicking"],
)


_C07_HEADERS = ['c07_header_accept', 'c07_header_accept_charset', 'c07_header_accept_encoding', 'c07_header_accept_language', 'c07_header_access_control_request_method', 'c07_header_access_control_request_headers', 'c07_header_authorization', 'c07_header_cache_control', 'c07_header_connection', 'c07_header_content_encoding', 'c07_header_content_length', 'c07_header_content_type', 'c07_header_cookie', 'c07_header_date', 'c07_header_expect', 'c07_header_forwarded', 'c07_header_from', 'c07_header_host', 'c07_header_origin', 'c07_header_pragma', 'c07_header_referer', 'c07_header_upgrade', 'c07_header_user_agent', 'c07_header_via', 'c07_header_warning', 'c07_header_access_control_allow_origin', 'c07_header_access_control_allow_headers', 'c07_header_access_control_allow_methods', 'c07_header_age', 'c07_header_allow', 'c07_header_content_disposition', 'c07_header_content_language', 'c07_header_content_location', 'c07_header_etag', 'c07_header_expires', 'c07_header_last_modified', 'c07_header_link', 'c07_header_location', 'c07_header_server', 'c07_header_set_cookie', 'c07_header_transfer_encoding']

PROPS["C07"] = dict(
    level="proof",
    steps=[
        dict(kind="kani", crate="humphrey", module="in_app", tag="c07", jobs=8, harnesses=[
            H("c07_status_code_u16_complete", "complete", "for all 65536 u16 codes: try_from accepts exactly the 39 modelled codes; code->variant->code and variant->code->variant are identities"),
            H("c07_reason_phrases_registered", "complete", "reason phrase of each of the 39 codes is a phrase registered for that code (RFC 2616 / 7231 / 9110 wording), table written from the RFCs"),
        ] + [H(n, "complete", "HeaderType::from(name) in every ASCII upper/lower-case mix (symbolic case mask) is the named variant and to_string() returns the canonical spelling", timeout=300) for n in _C07_HEADERS]),
    ],
    kani_functions=[dict(file="humphrey/src/http/status.rs", item="TryFrom<u16> for StatusCode, From<StatusCode> for u16, From<StatusCode> for &str", engine="kani"),
                    dict(file="humphrey/src/http/headers.rs", item="From<&str> for HeaderType, ToString for HeaderType", engine="kani")],
    assumptions=[],
    not_covered=[
        "Vec<u8>::from(Response) serialisation layout (status line built with format!; CBMC does not finish even on concrete data)",
        "Response::from_stream (Content-Length and chunked), SetCookie formatting, Client and redirect following",
        "the CRLF appended after a non-empty body (not counted by Content-Length) is therefore not decided",
    ],
)

PROPS["C18"]["steps"].append(
    dict(kind="kani", crate="humphrey_ws", module="in_ws", tag="c18", jobs=8, harnesses=[
        H("c18_b64_alphabet", "complete", "the constant ALPHABET is RFC 4648 table 1 (discharges the assumption of the Verus unit c18_b64enc), all 64 entries", timeout=600),
        H("c18_b64_decode_group_complete", "complete", "Base64 decode of one 4-symbol group over every ASCII byte in every position: RFC 4648 value, or Err for foreign symbols / misplaced padding", bound="one group (complete for a group)", timeout=600),
        H("c18_b64_decode_bad_length_1", "complete", "input of length 1 (not a multiple of 4) over the alphabet is rejected", timeout=600),
        H("c18_b64_decode_bad_length_2", "complete", "input of length 2 is rejected", timeout=600),
        H("c18_b64_decode_bad_length_3", "complete", "input of length 3 is rejected", timeout=600),
        H("c18_b64_decode_bad_length_5", "complete", "input of length 5 is rejected", timeout=600),
        H("c18_b64_decode_padding_only_last", "complete", "a padded group followed by another group is rejected", bound="two groups", timeout=600),
        H("c18_b64_decode_inverts_n1", "bounded", "decode(b64(x)) == x for every 1-byte x (b64 = RFC 4648 spec; encode == b64 is the Verus obligation)", bound="|x| = 1", timeout=600),
        H("c18_b64_decode_inverts_n2", "bounded", "decode(b64(x)) == x, |x| = 2", bound="|x| = 2", timeout=600),
        H("c18_b64_decode_inverts_n3", "bounded", "decode(b64(x)) == x, |x| = 3", bound="|x| = 3", timeout=600),
        H("c18_b64_decode_inverts_n4", "bounded", "decode(b64(x)) == x, |x| = 4 (two groups)", bound="|x| = 4", timeout=600),
        H("c18_b64_decode_inverts_n6", "bounded", "decode(b64(x)) == x, |x| = 6 (two groups)", bound="|x| = 6", timeout=600),
    ]))
# separate step, one harness at a time, 40 GB address-space limit: the CBMC output of a SHA-1 harness (and the trace of a failing one)
# is large enough for kani-driver itself to run out of memory under the default 14 GB limit when several are parsed in parallel (measured)
PROPS["C18"]["steps"].append(
    dict(kind="kani", crate="humphrey_ws", module="in_ws", tag="c18sha", jobs=1, mem_gb=40, harnesses=[
        H("c18_sha1_pad_n%03d" % n, "bounded", "the REAL SHA1Hash::hash on one %d-byte message equals an independent RFC 3174 transcription (padding rule: 0x80, zeros, "
          "64-bit length, block count) -- the padding depends on the length only, so this decides section 4 of the real code at this length" % n,
          bound="message length %d, one fixed content" % n, tier=("quick" if n == 56 else "thorough"), timeout=1800, playback=False)
        for n in (0, 1, 54, 55, 56, 57, 60, 63, 64, 119, 120)
    ]))

from . import gen_c11 as _g

IOERR_REC = (r"rec:^(std::ptr::drop_glue::<(std::io::Error|core::io::error::repr::Repr|core::io::error::CustomOwner|core::io::error::ErrorData<.*>"
             r"|std::result::Result<.*std::io::Error>|core::io::write::default_write_fmt::Adapter<.*>)>"
             r"|<core::io::error::repr::Repr as std::ops::Drop>::drop|<core::io::error::CustomOwner as std::ops::Drop>::drop)$")


def _c11_scripts():
    hs = []
    for name, sc, mode in _g.harness_names(3):
        tag = " ".join("%s%s" % ({0: "Cont", 1: "Text", 2: "Bin", 8: "Close", 9: "Ping", 10: "Pong"}[op], "" if fin else "(more)") for op, fin in sc)
        hs.append(H(name, "bounded",
                    "client script [%s], %s receive: messages = fragments concatenated, kind from first fragment; one well-formed unmasked Pong per Ping "
                    "and Close per Close echoing the payload, nothing else written; Close => ConnectionClosed + closed; drop of an open stream sends one empty Close"
                    % (tag, "non-blocking" if mode else "blocking"),
                    bound="%d frames, payload %d byte(s) each, symbolic payload bytes" % (len(sc), 2 if len(sc) <= 2 else 1),
                    tier="quick" if len(sc) <= 2 else "thorough", timeout=900))
    return hs


PROPS["C11"] = dict(
    level="model_checking",
    steps=[
        # everything send()/ping()/the Pong and Close replies write goes through Vec::<u8>::from(Frame) / Message::to_frame / Frame::new:
        # well-formedness of the written bytes for EVERY payload length is the encoder unit of C10 (unbounded)
        dict(kind="verus", unit="c10_encode", code_functions=["from", "new", "to_frame"]),
        dict(kind="kani", crate="humphrey_ws", module="in_ws", tag="c11a", jobs=8, harnesses=[
            H("c11_frame_nonblocking_arrived0", "modular", "Frame::from_stream_nonblocking with nothing arrived: `nothing yet`, no byte consumed, stream left blocking"),
            H("c11_frame_nonblocking_arrived1", "modular", "only the first header byte has arrived: the decoder continues from the frame's real 2 header bytes, after consuming exactly 2, in blocking mode (any 6 bytes)"),
            H("c11_frame_nonblocking_arrived2", "modular", "same with the whole header arrived"),
            H("c11_frame_nonblocking_arrived6", "modular", "same with more than the header arrived"),
            H("c11_nonblocking_nothing_yet", "modular", "WebsocketStream::recv_nonblocking on a silent connection: nothing yet, nothing consumed or written (real decoder, ghost socket)"),
            H("c11_message_nonblocking_nothing_yet", "modular", "Message::from_stream_nonblocking passes `nothing yet` through, writes nothing"),
            H("c11_send_and_ping_frames", "bounded", "send(binary message) and ping() each write exactly one well-formed unmasked frame", bound="3-byte message"),
            H("c11_drop_sends_close", "modular", "dropping an open WebsocketStream writes exactly the empty Close frame 88 00"),
            H("c11_handshake_without_key", "modular", "upgrade request without Sec-WebSocket-Key: user handler not run, nothing written"),
        ]),
        dict(kind="kani", crate="humphrey_ws", module="in_ws", tag="c11s", jobs=8,
             unwind_rules=[(IOERR_REC, 1), (r"write_all", 2)], harnesses=_c11_scripts()),
    ],
    kani_functions=[dict(file="humphrey-ws/src/message.rs", item="Message::from_stream, Message::from_stream_nonblocking", engine="kani"),
                    dict(file="humphrey-ws/src/stream.rs", item="WebsocketStream::{recv, recv_nonblocking, send, ping, send_raw, drop}", engine="kani"),
                    dict(file="humphrey-ws/src/frame.rs", item="Frame::from_stream_nonblocking", engine="kani"),
                    dict(file="humphrey-ws/src/handler.rs", item="websocket_handler / handshake (no-key path)", engine="kani")],
    assumptions=[
        "MODULAR: Message::from_stream* is verified against the contract of Frame::from_stream (next frame of the stream, payload unmasked, or ReadError at EOF) -- that contract is what C10 decides; the stub hands out frames of a script",
        "Frame::from_stream_nonblocking is verified against the contract of from_stream_inner (C10) with the socket replaced by a ghost byte stream; WouldBlock is represented by Ok(0), which the code maps to the same result",
        "write_all / read_exact retry loops of std are executed with per-loop unwinding bounds; io::Error drop-glue recursion is bounded at 1 with unwinding assertions on",
    ],
    not_covered=[
        "Sec-WebSocket-Accept == Base64(SHA-1(key + GUID)): the concatenation is format!, which neither verifier executes; SHA-1 digest equality is only in the thorough tier of C18 and bounded",
        "the 101 response's status line and header layout (Vec<u8>::from(Response) uses format!)",
        "scripts longer than 3 frames, payloads longer than 2 bytes per frame, write errors",
        "byte-level segmentation inside message reception (delegated to the read_exact contract, see C10)",
    ],
)


PROPS["C09"]["steps"].append(
    dict(kind="kani", crate="humphrey", module="in_app", tag="c09", jobs=2,
         unwind_rules=[(IOERR_REC, 1), ("id:memcmp.0", 64), (r"ascii_lowercase|ascii_uppercase|<str>::to_ascii|memchr|<\\[u8\\]>::eq|compare", 24)],
         harnesses=[
             H("c09_proxy_request_contract", "modular",
               "proxy_request for every combination of {connect ok/refused, write ok/fails, upstream answer parses / stream error / malformed} and any timeout 1..3600 s: "
               "always returns; upstream status+body passed through when all succeed, else 502 with the fixed body; nothing written without a connection; "
               "a read timeout <= the configured timeout and a write timeout are set on the upstream socket before reading / writing",
               timeout=900),
         ]))
PROPS["C09"]["kani_functions"] = [dict(file="humphrey/src/http/proxy.rs", item="proxy_request, proxy_request_internal", engine="kani")]
PROPS["C09"]["assumptions"] += [
    "contract stubs for TcpStream::connect_timeout / write / set_read_timeout / set_write_timeout and Response::from_stream (returns Ok(any) or Err(any)); format! and IpAddr Display stubbed (their text is not part of the obligation)",
]
PROPS["C09"]["not_covered"] += ["the bytes written upstream (request serialisation uses format!): 'request unchanged except X-Forwarded-For' is not decided", "route-prefix stripping in proxy_handler", "DNS resolution of targets (to_socket_addrs().unwrap() in proxy_handler)"]

PROPS["C04"] = dict(
    level="proof",
    steps=[
        dict(kind="verus", unit="c04_routing", code_functions=["get_handler", "route_matches"]),
        dict(kind="kani", crate="humphrey", module="in_app", tag="c04", jobs=4, unwind_rules=[(r"memchr", 12)], harnesses=[
            H("c04_get_handler_with_host", "bounded",
              "get_handler with a Host header, over EVERY match table (which host patterns / route patterns match): first matching route of the first matching host sub-app, "
              "else first matching default route, else none; only the first matching host is consulted; the query takes no part",
              bound="2 host sub-apps x 2 routes + 2 default routes (an unmatched entry is observationally absent, so smaller configurations are included)", timeout=1500),
            H("c04_get_handler_without_host", "bounded", "same without a Host header: only the default application is consulted", bound="2x2+2", timeout=1500),
            H("c04_websocket_dispatch_small_with_host", "bounded", "call_websocket_handler: exactly the handler of the first matching WebSocket route (same rule) runs, none if nothing matches", bound="1 host sub-app x 1 route + 1 default route", timeout=1500),
            H("c04_websocket_dispatch_with_host", "bounded", "call_websocket_handler, full shape", bound="2x2+2", tier="thorough", timeout=1800),
            H("c04_websocket_dispatch_without_host", "bounded", "same without a Host header", bound="2x2+2", tier="thorough", timeout=1800),
        ]),
    ],
    kani_functions=[dict(file="humphrey/src/app.rs", item="get_handler, call_websocket_handler", engine="kani")],
    assumptions=["MODULAR: krauss::wildcard_match is replaced by its contract (a function of pattern and text; decided under C05): an uninterpreted spec function in the Verus unit, a symbolic match table in the Kani harnesses",
                 "Verus unit: Headers::get(Host) is a contract-only callee (the Host value is an uninterpreted function of the header block); field types outside get_handler's cone (Method, Address, Cors, Headers, the handler traits) are opaque placeholders of the same name; shims vf_iter / vf_find for `.iter().find(..)`",
                 "registration order = Vec order (SubApp::with_route pushes; not exercised by the harness, which builds the vectors directly)"],
    not_covered=["call_websocket_handler beyond 2 host sub-apps x 2 routes (its effect is a dyn call, observed only by the Kani harnesses; get_handler itself is proved for any configuration)", "the tokio twin in humphrey/src/tokio/app.rs", "that the 404 response is produced when no handler is found (client_handler)"],
)

_C16 = [
    ("c16_get_pop0", "get on the empty cache returns nothing"),
    ("c16_get_pop1_s3", "get, 1 stored entry (3 bytes)"),
    ("c16_get_pop1_s0", "get, 1 stored empty entry, limit 0"),
    ("c16_get_pop2_s1_s3", "get, 2 stored entries (1 and 3 bytes) whose keys differ in path / host / both"),
    ("c16_get_pop2_s0_s2", "get, 2 stored entries (0 and 2 bytes)"),
]
_C16S = [
    ("c16_set_empty_n0_l0", "set of an empty item into an empty cache with limit 0"),
    ("c16_set_empty_n3_l3", "set of an item exactly as large as the limit into an empty cache"),
    ("c16_set_empty_n1_l6", "set into an empty cache with room to spare"),
    ("c16_set_pop1_evict_n1_l1", "set that must evict the only entry (limit 1)"),
    ("c16_set_pop1_evict_n2_l4", "set that must evict the only entry (3+2 > 4)"),
]
PROPS["C16"] = dict(
    level="proof",
    steps=[
        dict(kind="verus", unit="c16_cache", code_functions=["get", "set"]),
        dict(kind="kani", crate="humphrey_server", module="in_server", tag="c16", jobs=8, harnesses=
             [H(n, "bounded", "Cache::get contract from an ARBITRARY well-formed cache of that shape (symbolic key, clock, entry ages, contents): "
                "returns nothing, or exactly the entry stored under this (path, host) with its bytes and MIME type, not older than the time limit; changes nothing -- " + d,
                bound="population and entry sizes as named; 3 paths x 2 hosts", timeout=600) for n, d in _C16] +
             [H(n, "bounded", "Cache::set contract from an ARBITRARY well-formed cache of that shape with item <= limit: invariant kept (distinct keys, cache_size = sum <= limit), "
                "the item is retrievable immediately with exactly its bytes and MIME type, survivors keep their own data, eviction is oldest-first -- " + d,
                bound="population and sizes as named", timeout=600) for n, d in _C16S]),
    ],
    kani_functions=[dict(file="humphrey-server/src/server/cache.rs", item="Cache::get, Cache::set (bounded cross-check on the compiled crate, std's real VecDeque)", engine="kani")],
    assumptions=[
        "one clock reading per operation, not earlier than any stored cache_time (monotone clock): SystemTime::now/duration_since/as_secs are assumed (assume_specification) to return that reading",
        "RwLock gives set exclusive access and get shared access (Rust typing: &mut self / &self); threads are not explored -- each operation is atomic with respect to the invariant because it holds the lock for its whole duration (static.rs call sites)",
        "vstd's model of VecDeque (len, index, pop_front, remove, push_back) and the shims vf_iter / vf_position for `.iter().position(..)`; String == &str and From<&str> for String compare / keep the character sequence",
        "precondition of set taken from its call sites: the item fits the limit (value.len() <= cache_limit) and cache_limit + value.len() does not wrap usize",
    ],
    not_covered=[
        "static.rs cache_check / inner_file_handler: that handlers consult the cache under the right (path, host) key and store only items that fit (format!-based logging, file system)",
        "interleavings of threads (delegated to RwLock)", "the Kani cross-check is limited to populations <= 2 and does not finish when an older entry survives a set (the Verus proof has no such bound)",
    ],
)

PROPS["C17"] = dict(
    level="proof",
    steps=[
        dict(kind="verus", unit="c17_auth", code_functions=["valid", "expired", "refresh", "exists", "get_uid_by_token", "refresh_session", "create_session",
                                                             "create_session_with_lifetime", "invalidate_session", "invalidate_user_session", "remove_user",
                                                             "get_user_by_uid", "get_user_by_token", "get_session_by_token"]),
        dict(kind="kani", crate="humphrey_auth", module="in_auth", tag="c17", jobs=8, harnesses=[
            H("c17_session_clock", "complete", "Session::valid <=> now < expiry, expired <=> expiry < now, refresh sets expiry = now + lifetime, for every clock and expiry value"),
            H("c17_get_uid_by_token", "bounded", "get_uid_by_token from an arbitrary well-formed 2-user database: Ok(uid) iff the token is that user's stored token and not expired; changes nothing", bound="2 users, 1-character stored tokens, symbolic expiries and clock", timeout=900),
            H("c17_refresh_session", "bounded", "refresh_session succeeds only for a live token and extends exactly that session; an expired or unknown token is rejected and nothing changes", bound="2 users", timeout=900),
            H("c17_create_session", "bounded", "create_session: unknown user => UserNotFound; live session => SessionAlreadyExists (at most one live session); else a fresh token with expiry now + lifetime is installed, authenticates its owner, other user untouched", bound="2 users", timeout=1200),
            H("c17_invalidate_session", "bounded", "invalidate_session removes exactly the session holding the token; the token no longer authenticates; unknown token changes nothing", bound="2 users", timeout=900),
            H("c17_invalidate_user_session", "bounded", "invalidate_user_session removes exactly that user's session", bound="2 users", timeout=900),
            H("c17_remove_user", "bounded", "remove_user removes exactly that user, the other keeps uid and session", bound="2 users", timeout=900),
        ]),
    ],
    kani_functions=[dict(file="humphrey-auth/src/lib.rs", item="AuthProvider::{get_uid_by_token, refresh_session, create_session, invalidate_session, invalidate_user_session, remove_user, exists}", engine="kani"),
                    dict(file="humphrey-auth/src/session.rs", item="Session::{valid, expired, refresh}", engine="kani"),
                    dict(file="humphrey-auth/src/database.rs", item="impl AuthDatabase for Vec<User>", engine="kani")],
    assumptions=[
        "Verus unit c17_auth: AuthProvider's operations are proved against the CONTRACT of the AuthDatabase trait (abstract view = sequence of users) for any conforming database of any size; of the reference database Vec<User> the three lookups are proved against that contract, update_user / remove_user (iter_mut + closure writing through &mut, retain) are decided only by the bounded Kani harnesses, which run AuthProvider on the real Vec<User>",
        "derived Clone of Session / User returns an equal value; Option::filter, String == &str, AsRef blanket impls (&T, str) as specified in contracts/c17_auth.vrs; one clock reading per operation",
        "Session::create_with_lifetime replaced by its contract: returns a token different from every token in existence (256 bits from OsRng never repeat: ASSUMED) with expiry = now + lifetime; its hex formatting is not covered",
        "Argon2 password hashing/verification (User::create, User::verify) is not executed: the password half of the property is assumed, not decided",
        "SystemTime::now replaced by a ghost clock; well-formedness = distinct uids and pairwise distinct stored tokens",
    ],
    not_covered=["password verification", "create_user / verify (Argon2)", "with_auth_route cookie handling (app.rs)", "databases with more than 2 users", "custom AuthDatabase implementations"],
)


PROPS["C19"] = dict(
    level="model_checking",
    steps=[
        dict(kind="kani", crate="humphrey_server", module="in_server", tag="c19", jobs=4, unwind_rules=[("id:memcmp.0", 20)], harnesses=[
            H("c19_blacklist_check_fwd", "bounded",
              "blacklist_check (the per-request check of file/directory/redirect routes), request carrying X-Forwarded-For: 403 iff the connecting peer OR the forwarded origin is listed -- "
              "whatever the header says a listed peer is refused, and a request forwarded on behalf of a listed address is refused; otherwise the check passes",
              bound="list = {A (IPv4)}; peer and origin range over A, an unlisted IPv4 and an unlisted IPv6 address", timeout=1200),
            H("c19_blacklist_check_direct", "bounded", "same without X-Forwarded-For, list = {IPv6 D, A}: 403 iff the peer is listed", bound="list of 2 (IPv6 + IPv4), 3 candidate peers", timeout=1200),
            H("c19_verify_connection_block", "bounded", "verify_connection in block mode: the connection is refused exactly when the peer address is listed (or unknown)", bound="list of 2, 3 candidate peers", timeout=1200),
            H("c19_verify_connection_forbidden", "bounded", "verify_connection in forbidden mode: connections are accepted (requests get 403 instead)", bound="list of 2, 3 candidate peers", timeout=1200),
        ]),
    ],
    kani_functions=[dict(file="humphrey-server/src/server/static.rs", item="blacklist_check", engine="kani"),
                    dict(file="humphrey-server/src/server/server.rs", item="verify_connection", engine="kani")],
    assumptions=["request.address is what Address::from_headers produces (origin = last X-Forwarded-For entry, peer appended to proxies): that function itself (str::split + IpAddr::from_str) is not executed",
                 "logging (format!, Logger::warn) stubbed: its text is not part of the obligation", "TcpStream::peer_addr replaced by a stub returning the symbolic peer"],
    not_covered=["that file_handler / directory_handler / redirect_handler call blacklist_check before touching cache or files and return its 403 (harnesses written, CBMC out of memory)",
                 "the identical inline check in proxy_handler (repaired together with blacklist_check, not harnessed)", "socket-level behaviour (connection closed without a response)", "blacklist file parsing"],
)
