// Kani harnesses compiled inside humphrey::app (see DESIGN.md 2.2). Included only under cfg(kani).

pub mod c05 {
    use crate::krauss::wildcard_match;

    /// Executable transcription of the spec function `glob` of contracts/c05_krauss.vrs.
    fn glob(p: &[u8], t: &[u8]) -> bool {
        if p.is_empty() {
            t.is_empty()
        } else if p[0] == b'*' {
            glob(&p[1..], t) || (!t.is_empty() && glob(p, &t[1..]))
        } else {
            !t.is_empty() && p[0] == t[0] && glob(&p[1..], &t[1..])
        }
    }

    fn sym<const N: usize>(alpha: &[u8]) -> [u8; N] {
        let mut a = [0u8; N];
        let mut i = 0;
        while i < N {
            let k: usize = kani::any();
            kani::assume(k < alpha.len());
            a[i] = alpha[k];
            i += 1;
        }
        a
    }

    fn witness<const W: usize, const T: usize>() {
        let w: [u8; W] = sym(b"*ab");
        let t: [u8; T] = sym(b"ab*");
        let ws = unsafe { std::str::from_utf8_unchecked(&w) };
        let ts = unsafe { std::str::from_utf8_unchecked(&t) };
        let r = wildcard_match(ws, ts);
        assert!(r == glob(&w, &t), "wildcard_match(wild, tame) == glob(wild, tame)");
    }

    macro_rules! wit {
        ($name:ident, $w:expr, $t:expr) => {
            #[kani::proof]
            #[kani::unwind(12)]
            pub fn $name() {
                witness::<$w, $t>();
            }
        };
    }
    wit!(c05_witness_1x2, 1, 2);
    wit!(c05_witness_2x2, 2, 2);
    wit!(c05_witness_3x3, 3, 3);
    wit!(c05_witness_4x4, 4, 4);
}

/// Harnesses used only by `./selftest-kani` to pin down how the runner classifies Kani outcomes.
pub mod vfself {
    #[kani::proof]
    pub fn vfself_pass() {
        let x: u8 = kani::any();
        kani::cover!(x == 3, "x can be 3");
        assert!(x as u16 + 1 > 0);
    }
    #[kani::proof]
    pub fn vfself_fail() {
        let x: u8 = kani::any();
        assert!(x != 77, "x is never 77");
    }
    #[kani::proof]
    pub fn vfself_uncovered() {
        let x: u8 = kani::any();
        kani::assume(x < 5);
        kani::cover!(x == 9, "x can be 9");
    }
    #[kani::proof]
    #[kani::unwind(3)]
    pub fn vfself_unwind() {
        let n: u8 = kani::any();
        let mut i = 0u8;
        while i < n { i += 1; }
        assert!(i == n);
    }
    #[kani::proof]
    pub fn vfself_slow() {
        let a: u64 = kani::any();
        let b: u64 = kani::any();
        let c: u64 = kani::any();
        kani::assume(a > 1 && b > 1 && c > 1);
        assert!(a.wrapping_mul(b).wrapping_mul(c) != 0xdead_beef_1234_5677);
    }
}

/// Kani-generated concrete playback tests are written to build/playback/ by the runner and executed
/// natively (`cargo kani playback`) against the real crate: the replay step of DESIGN 2.3.
#[cfg(test)]
mod playback {
    include!(concat!(env!("HUMPHREY_VERIF"), "/build/playback/in_app_playback.rs"));
}
