"""Enumerates every protocol-valid client script of up to MAXF frames (RFC 6455 5.4: a message is one unfragmented
data frame, or a Text/Binary frame without FIN followed by Continuation frames, the last with FIN; control frames
may appear anywhere and are never fragmented) and writes one Kani harness per script into kani/in_ws.rs."""
import os, re

T, B, C, CL, PI, PO = 1, 2, 0, 8, 9, 10
NAMES = {(1, True): "T", (1, False): "t", (2, True): "B", (2, False): "b", (0, True): "C", (0, False): "c",
         (8, True): "X", (9, True): "P", (10, True): "O"}


def scripts(maxf):
    out = []

    def rec(seq, state):
        if seq:
            out.append(list(seq))
        if state == "done" or len(seq) == maxf:
            return
        for ctl in (PI, PO):
            rec(seq + [(ctl, True)], state)
        rec(seq + [(CL, True)], "done")
        if state == "start":
            for d in (T, B):
                rec(seq + [(d, True)], "done")
                rec(seq + [(d, False)], "mid")
        else:
            rec(seq + [(C, True)], "done")
            rec(seq + [(C, False)], "mid")
    rec([], "start")
    return out


def harness_names(maxf=3):
    res = []
    for sc in scripts(maxf):
        tag = "".join(NAMES[k] for k in sc)
        res.append(("c11_s_%s_b" % tag, sc, 0))
    # non-blocking twin for every script of up to 2 frames
    for sc in scripts(2):
        tag = "".join(NAMES[k] for k in sc)
        res.append(("c11_s_%s_n" % tag, sc, 1))
    return res


def render(maxf=3):
    lines = []
    for name, sc, mode in harness_names(maxf):
        p = 2 if len(sc) <= 2 else 1
        kinds = ", ".join("(%d, %s)" % (op, "true" if fin else "false") for op, fin in sc)
        lines.append("    scr!(%s, %d, %d, %d, [%s]);" % (name, len(sc), p, mode, kinds))
    return "\n".join(lines)


def main():
    path = os.path.join(os.path.dirname(os.path.dirname(os.path.abspath(__file__))), "kani", "in_ws.rs")
    s = open(path).read()
    a = s.index("    // BEGIN GENERATED c11 scripts\n") + len("    // BEGIN GENERATED c11 scripts\n")
    b = s.index("    // END GENERATED c11 scripts")
    s = s[:a] + render() + "\n" + s[b:]
    open(path, "w").write(s)
    print(len(harness_names()), "harnesses")


if __name__ == "__main__":
    main()
