#!/bin/sh
# dev helper: run a property's check against a SCRATCH worktree of /repo with a seeded change applied,
# using a scratch copy of /verif (own build/evidence/replays), so /repo and /verif/evidence are never touched.
# usage: seedtest2.sh <ID> <seeded-dir-name> [tier]      -> log in /verif/build/seedlogs/<name>.<ID>.log
ID=$1; NAME=$2; TIER=${3:-quick}
S=/tmp/vs/$NAME.$ID
LOGD=/verif/build/seedlogs; mkdir -p $LOGD
LOG=$LOGD/$NAME.$ID.log
rm -rf $S; mkdir -p $S
git -C /repo worktree add --detach $S/repo HEAD >/dev/null 2>&1 || { echo "worktree failed" > $LOG; exit 9; }
rsync -a --exclude build --exclude .git --exclude replays /verif/ $S/verif/
( cd $S/repo && git apply /verif/seeded/$NAME/patch.diff ) || { echo "patch does not apply" > $LOG; git -C /repo worktree remove --force $S/repo; rm -rf $S; exit 9; }
( cd $S/verif && ./setup >/dev/null && VERIF_REPO=$S/repo ./check $ID --tier $TIER ) > $LOG 2>&1
echo "rc=$?" >> $LOG
mkdir -p $LOGD/replays.$NAME.$ID && cp -r $S/verif/replays/* $LOGD/replays.$NAME.$ID/ 2>/dev/null
git -C /repo worktree remove --force $S/repo
rm -rf $S
tail -3 $LOG
