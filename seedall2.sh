#!/bin/sh
cd /verif
lane() { for pair in "$@"; do n=${pair%%:*}; id=${pair##*:}; ./seedtest2.sh $id $n quick > /dev/null 2>&1; done; }
lane C16b:C16 C04b:C04 C18c:C18 C09c:C09 &
lane C10b:C10 C17b:C17 C11c:C11 C19a:C19 &
wait
echo DONE > build/seedlogs/DONE2
