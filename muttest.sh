#!/bin/sh
# dev helper: muttest.sh <unit> <file-rel> <sed-expr>  -- apply a one-line mutation in a scratch worktree and run one Verus unit on it
U=$1; F=$2; E=$3
W=/tmp/vs/mut.$$
git -C /repo worktree add --detach $W HEAD >/dev/null 2>&1
sed -i "$E" $W/$F
( cd $W && git diff --stat | tail -1 )
VERIF_REPO=$W /verif/vrun.py $U 2>&1 | grep -E "^status|^FAIL" | head -5
git -C /repo worktree remove --force $W
