"""Run Kani harnesses compiled inside the real crates (DESIGN 2.2) and classify the outcome."""
import json
import os
import re
import resource
import subprocess
import time

VERIF = os.path.dirname(os.path.dirname(os.path.abspath(__file__)))
BUILD = os.path.join(VERIF, "build")

MEM_LIMIT_BYTES = int(os.environ.get("VERIF_KANI_MEM_GB", "14")) * (1 << 30)


def _limits():
    try:
        resource.setrlimit(resource.RLIMIT_AS, (MEM_LIMIT_BYTES, MEM_LIMIT_BYTES))
    except (ValueError, OSError):
        pass
    os.setsid()


class HarnessResult:
    def __init__(self, name):
        self.name = name
        self.pretty = None
        self.status = "undecided"   # ok | failed | undecided
        self.reason = "not run"
        self.checks_total = 0
        self.checks_passed = 0
        self.failed_checks = []     # dicts description, file, line, category, function
        self.covers = []            # dicts description, status
        self.time_s = 0.0
        self.symex_s = None
        self.solver_s = None
        self.playback = None        # text of generated playback test
        self.playbacks = []         # all generated tests (one per failed check / satisfied cover)

    def to_json(self):
        return dict(name=self.name, pretty=self.pretty, status=self.status, reason=self.reason,
                    checks_total=self.checks_total, checks_passed=self.checks_passed,
                    failed_checks=self.failed_checks, covers=self.covers, time_s=self.time_s)


def _env():
    env = dict(os.environ)
    env["HUMPHREY_VERIF"] = VERIF
    env["CARGO_NET_OFFLINE"] = "true"
    env.pop("RUSTFLAGS", None)
    return env


def ensure_playback_file():
    d = os.path.join(BUILD, "playback")
    os.makedirs(d, exist_ok=True)
    for c in ("in_app", "in_ws", "in_server", "in_auth"):
        p = os.path.join(d, c + "_playback.rs")
        if not os.path.exists(p):
            open(p, "w").write("// playback tests are written here by the runner when a harness fails\n")


def compute_unwindset(repo, crate, names, rules, features=None, log=None):
    """Per-loop unwinding (DESIGN 2.2): codegen only, list CBMC's loop ids, bound each loop whose
    function/file text matches a rule. Returns 'id:k,id:k' (possibly empty)."""
    import glob
    tdir = os.path.join(BUILD, "kani", crate)
    cmd = ["cargo", "kani", "-p", crate, "--target-dir", tdir, "-Z", "stubbing", "-Z", "function-contracts",
           "-Z", "unstable-options", "--only-codegen"]
    if features: cmd += ["--features", features]
    for n in names: cmd += ["--harness", n]
    p = subprocess.run(cmd, cwd=repo, env=_env(), capture_output=True, text=True)
    if log: log.write("$ " + " ".join(cmd) + "\n" + p.stdout[-2000:] + p.stderr[-3000:])
    ids = {}
    for rx, k in rules:
        if rx.startswith("id:"):
            ids[rx[3:]] = k
    for n in names:
        files = glob.glob(os.path.join(tdir, "kani", "*", "debug", "build", crate, "*", "out", "*%d%s.out" % (len(n), n)))
        files += glob.glob(os.path.join(tdir, "kani", "*", "debug", "deps", "*%d%s.out" % (len(n), n)))
        if not files: continue
        f = max(files, key=os.path.getmtime)
        # recursion: CBMC bounds a recursive function through the same option, keyed by the function identifier
        pm = f[:-4] + ".pretty_name_map.json"
        if os.path.exists(pm):
            try:
                names_map = json.load(open(pm))
            except ValueError:
                names_map = {}
            for mangled, pretty in names_map.items():
                if mangled.startswith("tag-") or not isinstance(pretty, str): continue
                for rx, k in rules:
                    if rx.startswith("rec:") and re.search(rx[4:], pretty):
                        ids[mangled] = k
                        break
        q = subprocess.run(["cbmc", "--show-loops", f], capture_output=True, text=True)
        for m in re.finditer(r"^Loop (\S+):\n\s+file (\S+) line (\d+)(?: column \d+)? function (.*)$", q.stdout, re.M):
            lid, file_, line, fn = m.group(1), m.group(2), m.group(3), m.group(4)
            text = "%s %s:%s" % (fn, file_, line)
            for rx, k in rules:
                if not rx.startswith("rec:") and not rx.startswith("id:") and re.search(rx, text):
                    ids[lid] = max(ids.get(lid, 0), k) if False else k
                    break
    return ",".join("%s:%d" % (a, b) for a, b in sorted(ids.items()))


def run_harnesses(repo, crate, names, timeout_s=900, jobs=4, playback=False, extra_args=(), tag="run", features=None, unwind_rules=None, mem_gb=None):
    """names: harness function names (matched exactly on the last path segment).
    Returns dict name -> HarnessResult, plus raw log path."""
    ensure_playback_file()
    results = {n: HarnessResult(n) for n in names}
    if not names:
        return results, ""
    tdir = os.path.join(BUILD, "kani", crate)
    os.makedirs(tdir, exist_ok=True)
    outj = os.path.join(BUILD, "kani", "%s_%s.json" % (crate, tag))
    logp = os.path.join(BUILD, "kani", "%s_%s.log" % (crate, tag))
    if os.path.exists(outj): os.remove(outj)
    cmd = ["cargo", "kani", "-p", crate, "--target-dir", tdir, "-Z", "stubbing", "-Z", "function-contracts",
           "-Z", "unstable-options", "--export-json", outj, "--output-format", "terse",
           "--harness-timeout", "%ds" % timeout_s]
    if not playback and min(jobs, len(names)) > 1:
        cmd += ["-j", str(min(jobs, len(names)))]
    else:
        jobs = 1
    if features:
        cmd += ["--features", features]
    if playback:
        cmd += ["-Z", "concrete-playback", "--concrete-playback=print"]
    for n in names:
        cmd += ["--harness", n]
    cmd += list(extra_args)
    if unwind_rules:
        uws = compute_unwindset(repo, crate, names, unwind_rules, features)
        if uws:
            cmd += ["--cbmc-args", "--unwindset", uws]
    t0 = time.time()
    overall = timeout_s * ((len(names) + jobs - 1) // max(1, jobs)) + 600
    with open(logp, "w") as lf:
        lf.write("$ " + " ".join(cmd) + "\n"); lf.flush()
        def _lim():
            if mem_gb:
                try: resource.setrlimit(resource.RLIMIT_AS, (mem_gb << 30, mem_gb << 30))
                except (ValueError, OSError): pass
                os.setsid()
            else:
                _limits()
        p = subprocess.Popen(cmd, cwd=repo, env=_env(), stdout=lf, stderr=subprocess.STDOUT, preexec_fn=_lim)
        try:
            rc = p.wait(timeout=overall)
        except subprocess.TimeoutExpired:
            try: os.killpg(p.pid, 9)
            except OSError: pass
            rc = -9
    wall = time.time() - t0
    log = open(logp, errors="replace").read()
    if "error: could not compile" in log or "error[E" in log:
        m = re.search(r"^error[^\n]*\n[^\n]*", log, re.M)
        for r in results.values():
            r.reason = "harness/crate does not compile under kani: " + (m.group(0)[:300] if m else "")
        return results, logp
    data = None
    if os.path.exists(outj):
        try: data = json.load(open(outj))
        except ValueError: data = None
    by_name = {}
    if data:
        stats = {c["harness_id"]: (c.get("cbmc_stats") or {}) for c in data.get("cbmc", [])}
        errs = {e["harness_id"]: e for e in data.get("error_details", [])}
        for r in data.get("verification_results", {}).get("results", []):
            hid = r["harness_id"]
            short = hid.split("::")[-1]
            if short not in results: continue
            hr = results[short]
            by_name[short] = True
            hr.pretty = hid
            hr.time_s = r.get("duration_ms", 0) / 1000.0
            st = stats.get(hid) or {}
            hr.symex_s, hr.solver_s = st.get("runtime_symex_s"), st.get("runtime_solver_s")
            checks = r.get("checks", [])
            hr.checks_total = len([c for c in checks if c.get("category") != "cover"])
            hr.checks_passed = len([c for c in checks if c.get("status") == "Success"])
            real_fail, unwind_fail, undet = [], [], 0
            for c in checks:
                cat, stt = c.get("category"), c.get("status")
                if cat == "cover":
                    hr.covers.append(dict(description=c.get("description"), status=stt)); continue
                if stt == "Failure":
                    d = dict(description=c.get("description"), file=c.get("location", {}).get("file"),
                             line=c.get("location", {}).get("line"), category=cat, function=c.get("function"))
                    (unwind_fail if cat == "unwind" else real_fail).append(d)
                elif stt == "Undetermined":
                    undet += 1
            e = errs.get(hid, {})
            if r.get("status") == "Success":
                bad = [c for c in hr.covers if c["status"] != "Satisfied"]
                if bad:
                    hr.status, hr.reason = "undecided", "cover not satisfied (vacuous harness?): %s" % bad[0]["description"]
                elif hr.checks_total == 0 and not hr.covers:
                    hr.status, hr.reason = "undecided", "zero checks generated"
                else:
                    hr.status, hr.reason = "ok", ""
            elif real_fail:
                hr.status, hr.reason, hr.failed_checks = "failed", "failed checks", real_fail
            elif unwind_fail:
                hr.status, hr.reason = "undecided", "unwinding bound insufficient: %s:%s" % (unwind_fail[0]["file"], unwind_fail[0]["line"])
            else:
                hr.status = "undecided"
                hr.reason = "kani: %s / %s" % (e.get("error_type"), e.get("exit_status"))
    # anything not reported: timeout / missing harness / crash
    for n, hr in results.items():
        if n in by_name: continue
        if re.search(r"no harnesses matched|No proof harnesses", log) or not re.search(r"Checking harness [\w:]*::%s\b" % re.escape(n), log):
            hr.reason = "harness not found or not started (rc=%s)" % rc
        else:
            hr.reason = "no result (timeout %ds / out of memory / crash, rc=%s)" % (timeout_s, rc)
    # text fallback for harnesses which timed out (Kani prints a line)
    if playback:
        for m in re.finditer(r"Concrete playback unit test for `([^`]+)`:\s*```(.*?)```", log, re.S):
            short = m.group(1).split("::")[-1]
            if short in results:
                src = m.group(2).strip()
                if results[short].playback is None:
                    results[short].playback = (m.group(1), src)
                    results[short].playbacks = []
                results[short].playbacks.append((m.group(1), src))
    for hr in results.values():
        if hr.time_s == 0: hr.time_s = wall
    return results, logp


def run_playback(repo, crate, module_file, pretty, test_src, timeout_s=900):
    """Write the Kani-generated playback test next to the harnesses and run it natively on the real crate.
    Returns (ran, passed, output_tail). A failing (panicking) test == the counterexample reproduces."""
    ensure_playback_file()
    m = re.search(r"fn (kani_concrete_playback_\w+)", test_src)
    if not m:
        return False, False, "no playback test generated"
    tname = m.group(1)
    short = pretty.split("::")[-1]
    full = "crate::" + pretty
    body = re.sub(r"concrete_playback_run\(concrete_vals,\s*%s\)" % re.escape(short),
                  "concrete_playback_run(concrete_vals, %s)" % full, test_src)
    path = os.path.join(BUILD, "playback", module_file + "_playback.rs")
    open(path, "w").write("// written by vf/kani_unit.py\n" + body + "\n")
    tdir = os.path.join(BUILD, "kani", crate + "_playback")
    cmd = ["cargo", "kani", "playback", "-Z", "concrete-playback", "-p", crate, "--", tname, "--nocapture"]
    env = _env()
    env["CARGO_TARGET_DIR"] = tdir
    env["RUST_BACKTRACE"] = "0"
    try:
        p = subprocess.run(cmd, cwd=repo, env=env, capture_output=True, text=True, timeout=timeout_s)
        full = p.stdout + p.stderr
        ran = "running 1 test" in full or "test result:" in full or "panicked at" in full
        passed = ran and p.returncode == 0
        keep = [l for l in full.split("\n") if re.search(r"panicked at|^test |test result|assert|^\S.*never|left|right", l)]
        out = "\n".join(keep[-40:]) + "\n...\n" + full[-1500:]
    except subprocess.TimeoutExpired:
        ran, passed, out = False, False, "playback timeout"
    finally:
        open(path, "w").write("// playback tests are written here by the runner when a harness fails\n")
    return ran, passed, out


def decode_playback_values(test_src):
    vals = []
    for m in re.finditer(r"//\s*(.+?)\n\s*vec!\[([0-9, ]*)\]", test_src):
        vals.append(dict(cbmc=m.group(1).strip(), bytes=[int(x) for x in m.group(2).split(",") if x.strip()]))
    return vals
