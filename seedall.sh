#!/bin/sh
# dev helper: run every seeded change through its property's quick check (scratch worktree + scratch copy of /verif), 2 lanes
cd /verif
lane() { for pair in "$@"; do n=${pair%%:*}; id=${pair##*:}; ./seedtest2.sh $id $n quick > /dev/null 2>&1; done; }
lane C05:C05 C10:C10 C18A:C18 C09A:C09 C16:C16 C07:C07 C03:C03 &
lane C04:C04 C11A:C11 C11B:C11 C17:C17 C18B:C18 C09B:C09 &
wait
echo SEEDALL-DONE > build/seedlogs/DONE
