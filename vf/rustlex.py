"""Minimal Rust lexer + item/anchor locator used by the extractor.

It never rewrites tokens: every span it returns is a (start, end) byte range of the
original source text, so extracted text is verbatim repository text.
"""
import re

WS, COMMENT, STR, CHAR, LIFETIME, IDENT, NUM, PUNCT = range(8)
KIND_NAMES = ["ws", "comment", "str", "char", "lifetime", "ident", "num", "punct"]

_ident_re = re.compile(r"[A-Za-z_][A-Za-z0-9_]*")
_num_re = re.compile(r"[0-9][0-9A-Za-z_]*(?:\.[0-9][0-9A-Za-z_]*)?")


class LexError(Exception):
    pass


class Tok:
    __slots__ = ("kind", "text", "start", "end")

    def __init__(self, kind, text, start, end):
        self.kind, self.text, self.start, self.end = kind, text, start, end

    def __repr__(self):
        return "Tok(%s,%r,%d)" % (KIND_NAMES[self.kind], self.text, self.start)


def lex(src):
    toks = []
    i, n = 0, len(src)
    while i < n:
        c = src[i]
        if c.isspace():
            j = i + 1
            while j < n and src[j].isspace():
                j += 1
            toks.append(Tok(WS, src[i:j], i, j)); i = j; continue
        if src.startswith("//", i):
            j = src.find("\n", i)
            j = n if j < 0 else j
            toks.append(Tok(COMMENT, src[i:j], i, j)); i = j; continue
        if src.startswith("/*", i):
            depth, j = 1, i + 2
            while j < n and depth:
                if src.startswith("/*", j): depth += 1; j += 2
                elif src.startswith("*/", j): depth -= 1; j += 2
                else: j += 1
            toks.append(Tok(COMMENT, src[i:j], i, j)); i = j; continue
        # raw / byte strings
        m = re.compile(r'b?r(#*)"').match(src, i)
        if m:
            close = '"' + m.group(1)
            j = src.find(close, m.end())
            if j < 0: raise LexError("unterminated raw string at %d" % i)
            j += len(close)
            toks.append(Tok(STR, src[i:j], i, j)); i = j; continue
        if c == '"' or (c == 'b' and i + 1 < n and src[i + 1] == '"'):
            j = i + (2 if c == 'b' else 1)
            while j < n and src[j] != '"':
                j += 2 if src[j] == '\\' else 1
            j += 1
            toks.append(Tok(STR, src[i:j], i, j)); i = j; continue
        if c == "'" or (c == 'b' and i + 1 < n and src[i + 1] == "'"):
            k = i + (1 if c == 'b' else 0)
            # char literal or lifetime
            if k + 1 < n and src[k + 1] == '\\':
                j = k + 2
                while j < n and src[j] != "'":
                    j += 1
                j += 1
                toks.append(Tok(CHAR, src[i:j], i, j)); i = j; continue
            if k + 2 < n and src[k + 2] == "'":
                j = k + 3
                toks.append(Tok(CHAR, src[i:j], i, j)); i = j; continue
            if c == "'":
                m = _ident_re.match(src, i + 1)
                if m:
                    toks.append(Tok(LIFETIME, src[i:m.end()], i, m.end())); i = m.end(); continue
                # multi-byte char literal like 'é' handled above (python str is code points)
                raise LexError("bad quote at %d" % i)
        m = _ident_re.match(src, i)
        if m:
            toks.append(Tok(IDENT, m.group(0), i, m.end())); i = m.end(); continue
        m = _num_re.match(src, i)
        if m:
            toks.append(Tok(NUM, m.group(0), i, m.end())); i = m.end(); continue
        toks.append(Tok(PUNCT, c, i, i + 1)); i += 1
    return toks


def code_tokens(toks):
    return [t for t in toks if t.kind not in (WS, COMMENT)]


OPEN = {"(": ")", "[": "]", "{": "}"}
CLOSE = {")": "(", "]": "[", "}": "{"}


def match_close(ct, i):
    """ct: code tokens, i: index of an opening bracket; returns index of its match."""
    assert ct[i].kind == PUNCT and ct[i].text in OPEN, ct[i]
    depth = 0
    for j in range(i, len(ct)):
        t = ct[j]
        if t.kind == PUNCT:
            if t.text in OPEN: depth += 1
            elif t.text in CLOSE:
                depth -= 1
                if depth == 0: return j
    raise LexError("unbalanced bracket at %d" % ct[i].start)


ITEM_KW = {"fn", "struct", "enum", "impl", "trait", "const", "static", "type", "use", "mod", "macro_rules", "union"}


class Item:
    def __init__(self):
        self.kind = None        # keyword
        self.name = None        # ident or normalised impl header
        self.start = None       # byte offset including attributes / visibility
        self.kw_start = None    # byte offset of first token after attributes (visibility included)
        self.end = None         # byte offset one past the end
        self.body = None        # (open_brace_offset, close_brace_offset) or None
        self.children = []      # for impl / trait / mod
        self.ct_range = None    # (i, j) code-token index range

    def __repr__(self):
        return "Item(%s %s @%d-%d)" % (self.kind, self.name, self.start, self.end)


def _norm(s):
    return re.sub(r"\s+", "", s)


def parse_items(src, ct, lo, hi):
    """Parse items between code-token indices [lo, hi)."""
    items = []
    i = lo
    while i < hi:
        it = Item()
        it.start = ct[i].start
        # attributes
        while i < hi and ct[i].text == "#" and ct[i].kind == PUNCT:
            j = i + 1
            if ct[j].text == "!": j += 1
            if ct[j].text != "[": break
            i = match_close(ct, j) + 1
        if i >= hi: break
        it.kw_start = ct[i].start
        vi = i
        # visibility & qualifiers
        if ct[i].text == "pub":
            i += 1
            if ct[i].text == "(": i = match_close(ct, i) + 1
        while ct[i].kind == IDENT and ct[i].text in ("unsafe", "async", "default") or \
                (ct[i].text == "extern" and ct[i + 1].kind == STR) or \
                (ct[i].text == "const" and ct[i + 1].text in ("fn", "unsafe", "async")):
            i += 2 if ct[i].text == "extern" else 1
        kw = ct[i]
        if kw.kind != IDENT or kw.text not in ITEM_KW:
            # something we do not model (macro invocation at item level, stray ';')
            # skip to next ';' or balanced '{}'
            j = i
            while j < hi and ct[j].text not in (";", "{"): j += 1
            if j < hi and ct[j].text == "{": j = match_close(ct, j)
            i = j + 1
            continue
        it.kind = kw.text
        k = i + 1
        if it.kind == "impl":
            j = k
            while ct[j].text != "{":
                if ct[j].text in ("(", "["): j = match_close(ct, j)
                j += 1
            it.name = _norm(src[ct[k].start:ct[j].start])
            e = match_close(ct, j)
            it.body = (ct[j].start, ct[e].start)
            it.children = parse_items(src, ct, j + 1, e)
            it.end = ct[e].end
            it.ct_range = (vi, e + 1)
            i = e + 1
        elif it.kind in ("trait", "mod"):
            it.name = ct[k].text
            j = k
            while ct[j].text not in ("{", ";"):
                if ct[j].text in ("(", "["): j = match_close(ct, j)
                j += 1
            if ct[j].text == "{":
                e = match_close(ct, j)
                it.body = (ct[j].start, ct[e].start)
                it.children = parse_items(src, ct, j + 1, e)
            else:
                e = j
            it.end = ct[e].end
            it.ct_range = (vi, e + 1)
            i = e + 1
        elif it.kind == "fn":
            it.name = ct[k].text
            j = k
            while ct[j].text not in ("{", ";"):
                if ct[j].text in ("(", "["): j = match_close(ct, j)
                j += 1
            if ct[j].text == "{":
                e = match_close(ct, j)
                it.body = (ct[j].start, ct[e].start)
            else:
                e = j
            it.end = ct[e].end
            it.ct_range = (vi, e + 1)
            i = e + 1
        elif it.kind in ("struct", "enum", "union"):
            it.name = ct[k].text
            j = k
            while ct[j].text not in ("{", ";", "("):
                j += 1
            if ct[j].text == "{":
                e = match_close(ct, j)
                it.body = (ct[j].start, ct[e].start)
            elif ct[j].text == "(":
                e = match_close(ct, j)
                while ct[e].text != ";": e += 1
            else:
                e = j
            it.end = ct[e].end
            it.ct_range = (vi, e + 1)
            i = e + 1
        elif it.kind == "macro_rules":
            it.name = ct[k + 1].text
            j = k + 2
            e = match_close(ct, j)
            if e + 1 < hi and ct[e + 1].text == ";": e += 1
            it.end = ct[e].end
            it.ct_range = (vi, e + 1)
            i = e + 1
        else:  # const static type use
            it.name = ct[k].text if it.kind != "use" else None
            if it.kind == "static" and ct[k].text == "mut": it.name = ct[k + 1].text
            j = k
            while ct[j].text != ";":
                if ct[j].text in OPEN: j = match_close(ct, j)
                j += 1
            it.end = ct[j].end
            it.ct_range = (vi, j + 1)
            i = j + 1
        items.append(it)
    return items


class Source:
    def __init__(self, path, text):
        self.path = path
        self.text = text
        self.toks = lex(text)
        self.ct = code_tokens(self.toks)
        self.items = parse_items(text, self.ct, 0, len(self.ct))

    def line_of(self, off):
        return self.text.count("\n", 0, off) + 1

    def find(self, spec):
        """spec examples: 'fn wildcard_match', 'impl From<Frame> for Vec<u8>::fn from',
        'struct Frame', 'const DAYS', 'impl Frame', 'trait Choose', 'mod x::fn y'."""
        parts = [p.strip() for p in spec.split("::fn ")]
        if len(parts) == 2:
            outer = self._find_in(self.items, parts[0])
            return self._find_in(outer.children, "fn " + parts[1])
        return self._find_in(self.items, spec)

    def _find_in(self, items, spec):
        kind, _, name = spec.partition(" ")
        name = _norm(name)
        hits = [it for it in items if it.kind == kind and it.name is not None and _norm(it.name) == name]
        if len(hits) != 1:
            raise KeyError("item %r: %d matches in %s" % (spec, len(hits), self.path))
        return hits[0]

    def ct_index_at(self, off):
        lo, hi = 0, len(self.ct)
        while lo < hi:
            mid = (lo + hi) // 2
            if self.ct[mid].start < off: lo = mid + 1
            else: hi = mid
        return lo


def strip_attrs_docs(src_obj, start, end):
    """Return list of (s, e) sub-spans of [start,end) with doc comments and outer attributes removed.
    Ordinary comments are kept (harmless), doc comments removed because verus! rejects them in
    some positions."""
    spans = []
    cur = start
    toks = src_obj.toks
    ct = src_obj.ct
    # attribute spans
    drops = []
    i = src_obj.ct_index_at(start)
    while i < len(ct) and ct[i].start < end:
        if ct[i].text == "#" and ct[i].kind == PUNCT and i + 1 < len(ct):
            j = i + 1
            if ct[j].text == "!": j += 1
            if ct[j].text == "[":
                e = match_close(ct, j)
                drops.append((ct[i].start, ct[e].end))
                i = e + 1
                continue
        i += 1
    for t in toks:
        if t.start >= end: break
        if t.start < start: continue
        if t.kind == COMMENT and (t.text.startswith("///") or t.text.startswith("//!") or
                                  t.text.startswith("/**") or t.text.startswith("/*!")):
            drops.append((t.start, t.end))
    drops.sort()
    for s, e in drops:
        if s < cur: continue
        if s > cur: spans.append((cur, s))
        cur = e
    if cur < end: spans.append((cur, end))
    return spans
