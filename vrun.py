#!/usr/bin/env python3
"""dev helper: generate + verify one Verus unit against /repo (or VERIF_REPO), print classified result."""
import os, sys
sys.path.insert(0, os.path.dirname(os.path.abspath(__file__)))
from vf import verus_unit
repo = os.environ.get("VERIF_REPO", "/repo")
r = verus_unit.run_unit(repo, sys.argv[1], seed=int(sys.argv[2]) if len(sys.argv) > 2 else None)
print("status:", r.status, "|", r.reason[:3000])
print("verified", r.verified, "errors", r.errors, "smt_ms", r.smt_ms, "wall", round(r.wall_s, 1), "gen", r.gen_path)
for f in r.failures:
    print("FAIL", f.get("obligation", f["function"] + "::" + f["kind"]), "gen:%d" % f["gen_line"]); print(f["rendered"][:1500])
for f in r.functions:
    if not f["success"]: print("  fn not verified:", f["name"])
