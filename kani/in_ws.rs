// Kani harnesses compiled inside humphrey_ws (crate root, so `crate::frame` and pub(crate) fields are visible).

/// Contract reader. The frame decoder is verified against the *contract* of `Read::read_exact` ("fill the whole
/// buffer from the stream, whatever the segmentation, or fail") rather than against std's retry loop: `read_exact`
/// below implements exactly that contract over a byte slice, and a direct `read` -- whose result would depend on the
/// segmentation -- is an obligation failure. `pos` is the ghost count of consumed bytes.
pub struct ContractReader<'a> {
    pub data: &'a [u8],
    pub pos: usize,
}
impl<'a> std::io::Read for ContractReader<'a> {
    fn read(&mut self, _buf: &mut [u8]) -> std::io::Result<usize> {
        assert!(false, "decoder reads the stream only through read_exact (segmentation independence)");
        Ok(0)
    }
    fn read_exact(&mut self, buf: &mut [u8]) -> std::io::Result<()> {
        let left = self.data.len() - self.pos;
        if buf.len() > left {
            self.pos = self.data.len();
            return Err(std::io::Error::from(std::io::ErrorKind::UnexpectedEof));
        }
        buf.copy_from_slice(&self.data[self.pos..self.pos + buf.len()]);
        self.pos += buf.len();
        Ok(())
    }
}

pub mod c10 {
    use super::ContractReader;
    use crate::error::WebsocketError;
    use crate::frame::{Frame, Opcode};
    use std::convert::TryFrom;

    /// Opcode::try_from over all 256 byte values (loop-free => complete).
    #[kani::proof]
    pub fn c10_opcode_try_from_complete() {
        let v: u8 = kani::any();
        let r = Opcode::try_from(v);
        match v {
            0x0 => assert!(matches!(r, Ok(Opcode::Continuation))),
            0x1 => assert!(matches!(r, Ok(Opcode::Text))),
            0x2 => assert!(matches!(r, Ok(Opcode::Binary))),
            0x8 => assert!(matches!(r, Ok(Opcode::Close))),
            0x9 => assert!(matches!(r, Ok(Opcode::Ping))),
            0xA => assert!(matches!(r, Ok(Opcode::Pong))),
            _ => assert!(matches!(r, Err(WebsocketError::InvalidOpcode))),
        }
        if let Ok(o) = r {
            assert!(o as u8 == v, "opcode value round-trips");
        }
        kani::cover!(r.is_ok(), "a valid opcode exists");
        kani::cover!(r.is_err(), "a reserved opcode exists");
    }

    fn valid_opcode(v: u8) -> bool {
        matches!(v, 0 | 1 | 2 | 8 | 9 | 10)
    }

    /// The decoder contract, for every 2-byte header and every remainder of up to N bytes of which only `avail`
    /// are actually supplied (truncation at every offset), delivered in reads of at most `chunk` bytes.
    /// The decoder contract for every input of exactly N bytes (all 2^16 headers, every remainder). Running it for
    /// N = 2..=K covers every truncation offset of every frame whose wire image is at most K bytes.
    fn decode_contract<const N: usize>() {
        let wire: [u8; N] = kani::any();
        let avail: usize = N;
        let b0 = wire[0];
        let b1 = wire[1];
        let mut rd = ContractReader { data: &wire[..avail], pos: 0 };
        let r = Frame::from_stream(&mut rd);

        // ---- RFC 6455 5.2, written independently of the code ----
        let op = b0 & 0x0F;
        if !valid_opcode(op) {
            assert!(matches!(r, Err(WebsocketError::InvalidOpcode)), "reserved opcode is rejected");
            return;
        }
        let mask = b1 & 0x80 != 0;
        let len7 = (b1 & 0x7F) as u64;
        let ext: usize = if len7 == 126 { 2 } else if len7 == 127 { 8 } else { 0 };
        if avail < 2 + ext {
            assert!(matches!(r, Err(WebsocketError::ReadError)), "truncated extended length is a read error");
            return;
        }
        let length: u64 = if len7 == 126 {
            ((wire[2] as u64) << 8) | wire[3] as u64
        } else if len7 == 127 {
            ((wire[2] as u64) << 56) | ((wire[3] as u64) << 48) | ((wire[4] as u64) << 40) | ((wire[5] as u64) << 32)
                | ((wire[6] as u64) << 24) | ((wire[7] as u64) << 16) | ((wire[8] as u64) << 8) | wire[9] as u64
        } else {
            len7
        };
        let klen = if mask { 4 } else { 0 };
        let need: u128 = 2 + ext as u128 + klen as u128 + length as u128;
        if (avail as u128) < need {
            assert!(matches!(r, Err(WebsocketError::ReadError)), "truncated frame is a read error");
            kani::cover!(true, "a truncated frame was rejected");
            return;
        }
        let f = match r {
            Ok(f) => f,
            Err(_) => {
                assert!(false, "a complete frame decodes");
                return;
            }
        };
        let koff = 2 + ext;
        let poff = koff + klen;
        assert!(f.fin == (b0 & 0x80 != 0), "FIN bit");
        assert!(f.rsv[0] == (b0 & 0x40 != 0) && f.rsv[1] == (b0 & 0x20 != 0) && f.rsv[2] == (b0 & 0x10 != 0), "RSV bits");
        assert!(f.opcode as u8 == op, "opcode");
        assert!(f.mask == mask, "MASK bit");
        assert!(f.length == length, "length field");
        assert!(f.payload.len() as u64 == length, "payload length equals length field");
        // universally quantified by a symbolic index instead of a loop
        let i: usize = kani::any();
        kani::assume(i < 4);
        assert!(f.masking_key[i] == if mask { wire[koff + i] } else { 0 }, "masking key");
        if !f.payload.is_empty() {
            let j: usize = kani::any();
            kani::assume(j < f.payload.len());
            assert!(f.payload[j] == wire[poff + j] ^ f.masking_key[j % 4], "payload is unmasked with key[i % 4]");
        }
        assert!(rd.pos as u128 == need, "exactly the frame's bytes are consumed");
        kani::cover!(true, "a complete frame was decoded");
    }

    #[kani::proof]
    #[kani::unwind(4)]
    pub fn c10_decode_contract_n02() {
        decode_contract::<2>();
    }
    #[kani::proof]
    #[kani::unwind(4)]
    pub fn c10_decode_contract_n03() {
        decode_contract::<3>();
    }
    #[kani::proof]
    #[kani::unwind(4)]
    pub fn c10_decode_contract_n04() {
        decode_contract::<4>();
    }
    #[kani::proof]
    #[kani::unwind(5)]
    pub fn c10_decode_contract_n05() {
        decode_contract::<5>();
    }
    #[kani::proof]
    #[kani::unwind(6)]
    pub fn c10_decode_contract_n06() {
        decode_contract::<6>();
    }
    #[kani::proof]
    #[kani::unwind(7)]
    pub fn c10_decode_contract_n07() {
        decode_contract::<7>();
    }
    #[kani::proof]
    #[kani::unwind(8)]
    pub fn c10_decode_contract_n08() {
        decode_contract::<8>();
    }

    /// Exact-shape instance of the same contract: payload length L (7-bit form), MASK bit, and X trailing bytes that
    /// must not be consumed; every other header bit, the key and every payload byte symbolic. Concrete sizes keep CBMC
    /// cheap, so this reaches payloads the fully symbolic-length harnesses above cannot.
    fn decode_exact<const L: usize, const N: usize>(masked: bool, extra: usize) {
        decode_exact_form::<L, N>(masked, extra, 0)
    }
    /// form: 0 = 7-bit length, 1 = 16-bit extended length, 2 = 64-bit extended length (the harness writes the
    /// length field for L in that form; the decoder must accept any form, the encoder contract picks the shortest).
    fn decode_exact_form<const L: usize, const N: usize>(masked: bool, extra: usize, form: u8) {
        let mut wire: [u8; N] = kani::any();
        let klen = if masked { 4 } else { 0 };
        let ext = if form == 0 { 0 } else if form == 1 { 2 } else { 8 };
        assert!(N == 2 + ext + klen + L + extra);
        let mbit = if masked { 0x80 } else { 0 };
        if form == 0 {
            wire[1] = mbit | (L as u8);
        } else if form == 1 {
            wire[1] = mbit | 126;
            wire[2] = (L >> 8) as u8;
            wire[3] = L as u8;
        } else {
            wire[1] = mbit | 127;
            let be = (L as u64).to_be_bytes();
            wire[2..10].copy_from_slice(&be);
        }
        let b0 = wire[0];
        let mut rd = ContractReader { data: &wire[..], pos: 0 };
        let r = Frame::from_stream(&mut rd);
        if !valid_opcode(b0 & 0x0F) {
            assert!(matches!(r, Err(WebsocketError::InvalidOpcode)), "reserved opcode is rejected");
            return;
        }
        let f = match r {
            Ok(f) => f,
            Err(_) => {
                assert!(false, "a complete frame decodes");
                return;
            }
        };
        assert!(f.fin == (b0 & 0x80 != 0), "FIN bit");
        assert!(f.rsv[0] == (b0 & 0x40 != 0) && f.rsv[1] == (b0 & 0x20 != 0) && f.rsv[2] == (b0 & 0x10 != 0), "RSV bits");
        assert!(f.opcode as u8 == b0 & 0x0F, "opcode");
        assert!(f.mask == masked, "MASK bit");
        assert!(f.length == L as u64 && f.payload.len() == L, "length");
        let i: usize = kani::any();
        kani::assume(i < 4);
        assert!(f.masking_key[i] == if masked { wire[2 + ext + i] } else { 0 }, "masking key");
        if L > 0 {
            let j: usize = kani::any();
            kani::assume(j < L);
            assert!(f.payload[j] == wire[2 + ext + klen + j] ^ f.masking_key[j % 4], "payload is unmasked with key[i % 4]");
        }
        assert!(rd.pos == N - extra, "exactly the frame's bytes are consumed");
        kani::cover!(true, "a complete frame was decoded");
    }
    #[kani::proof]
    #[kani::unwind(7)]
    pub fn c10_decode_exact_l05_m0() {
        decode_exact::<5, 9>(false, 2);
    }
    #[kani::proof]
    #[kani::unwind(7)]
    pub fn c10_decode_exact_l05_m1() {
        decode_exact::<5, 13>(true, 2);
    }
    #[kani::proof]
    #[kani::unwind(10)]
    pub fn c10_decode_exact_l08_m0() {
        decode_exact::<8, 12>(false, 2);
    }
    #[kani::proof]
    #[kani::unwind(10)]
    pub fn c10_decode_exact_l08_m1() {
        decode_exact::<8, 16>(true, 2);
    }
    #[kani::proof]
    #[kani::unwind(14)]
    pub fn c10_decode_exact_l12_m0() {
        decode_exact::<12, 16>(false, 2);
    }
    #[kani::proof]
    #[kani::unwind(14)]
    pub fn c10_decode_exact_l12_m1() {
        decode_exact::<12, 20>(true, 2);
    }
    #[kani::proof]
    #[kani::unwind(5)]
    pub fn c10_decode_exact_f2_l3_m1() {
        decode_exact_form::<3, 18>(true, 1, 2);
    }
    #[kani::proof]
    #[kani::unwind(6)]
    pub fn c10_decode_exact_f1_l3_m1() {
        decode_exact_form::<3, 12>(true, 1, 1);
    }
    #[kani::proof]
    #[kani::unwind(6)]
    pub fn c10_decode_exact_f1_l4_m0() {
        decode_exact_form::<4, 9>(false, 1, 1);
    }

    /// Encode -> decode round trip on the real encoder and the real decoder: any header bits, any key, any payload
    /// bytes, payload length L. The decoded frame equals the original except that the payload comes back unmasked
    /// (the encoder writes `payload` as is; a masked frame's payload field holds the masked bytes).
    fn roundtrip<const L: usize>(mask: bool) {
        let payload: [u8; L] = kani::any();
        let opv: u8 = kani::any();
        let opcode = match Opcode::try_from(opv) {
            Ok(o) => o,
            Err(_) => return,
        };
        let f = Frame {
            fin: kani::any(),
            rsv: [kani::any(), kani::any(), kani::any()],
            opcode,
            mask,
            length: L as u64,
            masking_key: kani::any(),
            payload: payload.to_vec(),
        };
        let (fin, rsv, key) = (f.fin, f.rsv, f.masking_key);
        let bytes: Vec<u8> = f.into();
        assert!(bytes.len() == 2 + if mask { 4 } else { 0 } + L, "shortest (7-bit) length form is used");
        let mut rd = ContractReader { data: &bytes[..], pos: 0 };
        let g = match Frame::from_stream(&mut rd) {
            Ok(g) => g,
            Err(_) => {
                assert!(false, "an encoded frame decodes");
                return;
            }
        };
        assert!(g.fin == fin && g.rsv == rsv && g.opcode == opcode && g.mask == mask && g.length == L as u64, "header round-trips");
        if mask {
            assert!(g.masking_key == key, "key round-trips");
        }
        if L > 0 {
            let j: usize = kani::any();
            kani::assume(j < L);
            let k = if mask { key[j % 4] } else { 0 };
            assert!(g.payload[j] == payload[j] ^ k, "payload round-trips (unmasked on receipt)");
        }
        assert!(rd.pos == bytes.len(), "all bytes consumed");
        kani::cover!(true, "a frame round-tripped");
    }
    #[kani::proof]
    #[kani::unwind(8)]
    pub fn c10_roundtrip_l0_m0() {
        roundtrip::<0>(false);
    }
    #[kani::proof]
    #[kani::unwind(8)]
    pub fn c10_roundtrip_l0_m1() {
        roundtrip::<0>(true);
    }
    #[kani::proof]
    #[kani::unwind(8)]
    pub fn c10_roundtrip_l5_m0() {
        roundtrip::<5>(false);
    }
    #[kani::proof]
    #[kani::unwind(8)]
    pub fn c10_roundtrip_l5_m1() {
        roundtrip::<5>(true);
    }
}


pub mod c03 {
    use super::ContractReader;
    use crate::error::WebsocketError;
    use crate::frame::Frame;

    /// C03 (WebSocket decoder): a frame header that *claims* any 64-bit payload length, followed by X bytes.
    /// The decoder must return (no panic, no abort), with a read error whenever fewer bytes follow than claimed,
    /// and must not have asked the allocator for memory in proportion to the claim.
    fn claimed_len<const N: usize>() {
        let mut wire: [u8; N] = kani::any();
        wire[1] = (wire[1] & 0x80) | 127;
        let mask = wire[1] & 0x80 != 0;
        let length = u64::from_be_bytes([wire[2], wire[3], wire[4], wire[5], wire[6], wire[7], wire[8], wire[9]]);
        let mut rd = ContractReader { data: &wire[..], pos: 0 };
        let r = Frame::from_stream(&mut rd);
        let op = wire[0] & 0x0F;
        if !matches!(op, 0 | 1 | 2 | 8 | 9 | 10) {
            assert!(matches!(r, Err(WebsocketError::InvalidOpcode)));
            return;
        }
        let need: u128 = 10 + if mask { 4 } else { 0 } + length as u128;
        if need > N as u128 {
            assert!(matches!(r, Err(WebsocketError::ReadError)), "claimed length beyond the supplied bytes is a read error");
            kani::cover!(length > u32::MAX as u64, "a length above 4 GiB was claimed");
        } else {
            match r {
                Ok(f) => assert!(f.payload.capacity() <= 2 * N + 64, "allocation bounded by the bytes supplied"),
                Err(_) => assert!(false, "complete frame decodes"),
            }
        }
    }
    #[kani::proof]
    #[kani::unwind(4)]
    pub fn c03_ws_claimed_len_n10() {
        claimed_len::<10>();
    }
    #[kani::proof]
    #[kani::unwind(4)]
    pub fn c03_ws_claimed_len_n14() {
        claimed_len::<14>();
    }
}


pub mod c18 {
    use crate::util::base64::{Base64Decode, Base64Encode};
    use crate::util::sha1::SHA1Hash;

    /// RFC 4648 table 1, written out independently of base64.rs.
    const RFC4648: &[u8; 64] = b"ABCDEFGHIJKLMNOPQRSTUVWXYZabcdefghijklmnopqrstuvwxyz0123456789+/";

    fn val(c: u8) -> Option<u8> {
        match c {
            b'A'..=b'Z' => Some(c - b'A'),
            b'a'..=b'z' => Some(c - b'a' + 26),
            b'0'..=b'9' => Some(c - b'0' + 52),
            b'+' => Some(62),
            b'/' => Some(63),
            _ => None,
        }
    }

    /// Discharges the one fact the Verus unit c18_b64enc assumes about the constant ALPHABET: encoding the three bytes
    /// whose four sextets are (i, i, i, i) yields RFC 4648's character i four times -- for all 64 i (complete).
    #[kani::proof]
    #[kani::unwind(6)]
    pub fn c18_b64_alphabet() {
        let i: u8 = kani::any();
        kani::assume(i < 64);
        let v: u32 = ((i as u32) << 18) | ((i as u32) << 12) | ((i as u32) << 6) | i as u32;
        let bytes = [(v >> 16) as u8, (v >> 8) as u8, v as u8];
        let s = bytes.encode();
        let b = s.as_bytes();
        assert!(b.len() == 4);
        let c = RFC4648[i as usize];
        assert!(b[0] == c && b[1] == c && b[2] == c && b[3] == c, "ALPHABET[i] is RFC 4648 character i");
        kani::cover!(i == 63, "last alphabet entry reached");
    }

    /// Decoder contract on one 4-symbol group, every ASCII byte value in every position (2^28 inputs, loop bounds
    /// constant => complete for a group): the RFC 4648 value or an error; nothing malformed is accepted.
    #[kani::proof]
    #[kani::unwind(6)]
    pub fn c18_b64_decode_group_complete() {
        let g: [u8; 4] = kani::any();
        kani::assume(g[0] < 128 && g[1] < 128 && g[2] < 128 && g[3] < 128);
        let s = unsafe { std::str::from_utf8_unchecked(&g) };
        let r = s.decode();
        let (v0, v1, v2, v3) = (val(g[0]), val(g[1]), val(g[2]), val(g[3]));
        match (v0, v1, v2, v3) {
            (Some(a), Some(b), Some(c), Some(d)) => {
                let v: u32 = ((a as u32) << 18) | ((b as u32) << 12) | ((c as u32) << 6) | d as u32;
                match r {
                    Ok(out) => assert!(out.len() == 3 && out[0] == (v >> 16) as u8 && out[1] == (v >> 8) as u8 && out[2] == v as u8, "full group decodes to its 24 bits"),
                    Err(_) => assert!(false, "a well-formed group is accepted"),
                }
                kani::cover!(g[0] == b'+' && g[3] == b'/', "group using + and / reached");
            }
            (Some(a), Some(b), Some(c), None) if g[3] == b'=' => match r {
                Ok(out) => assert!(out.len() == 2 && out[0] == (a << 2) | (b >> 4) && out[1] == (b << 4) | (c >> 2), "xxx= decodes to two bytes"),
                Err(_) => assert!(c & 0x03 != 0, "xxx= with zero trailing bits is accepted"),
            },
            (Some(a), Some(b), None, None) if g[2] == b'=' && g[3] == b'=' => match r {
                Ok(out) => assert!(out.len() == 1 && out[0] == (a << 2) | (b >> 4), "xx== decodes to one byte"),
                Err(_) => assert!(b & 0x0f != 0, "xx== with zero trailing bits is accepted"),
            },
            _ => {
                assert!(r.is_err(), "malformed group (foreign symbol or misplaced padding) is rejected");
                kani::cover!(g[0] == b'=', "leading padding reached");
            }
        }
    }

    /// Input whose length is not a multiple of 4 is malformed (RFC 4648 section 3.2/4: padding is mandatory).
    fn bad_length<const N: usize>() {
        let g: [u8; N] = kani::any();
        let j: usize = kani::any();
        kani::assume(j < N);
        // every symbol is from the alphabet (checked through a symbolic index, so for all positions)
        let mut i = 0;
        while i < N {
            kani::assume(val(g[i]).is_some());
            i += 1;
        }
        let s = unsafe { std::str::from_utf8_unchecked(&g) };
        assert!(s.decode().is_err(), "length not a multiple of four is rejected");
    }
    #[kani::proof]
    #[kani::unwind(7)]
    pub fn c18_b64_decode_bad_length_1() { bad_length::<1>(); }
    #[kani::proof]
    #[kani::unwind(7)]
    pub fn c18_b64_decode_bad_length_2() { bad_length::<2>(); }
    #[kani::proof]
    #[kani::unwind(7)]
    pub fn c18_b64_decode_bad_length_3() { bad_length::<3>(); }
    #[kani::proof]
    #[kani::unwind(7)]
    pub fn c18_b64_decode_bad_length_5() { bad_length::<5>(); }

    /// Padding may only end the input: a padded group followed by another group is malformed.
    #[kani::proof]
    #[kani::unwind(10)]
    pub fn c18_b64_decode_padding_only_last() {
        let mut g: [u8; 8] = kani::any();
        let mut i = 0;
        while i < 8 {
            kani::assume(val(g[i]).is_some());
            i += 1;
        }
        let two: bool = kani::any();
        g[3] = b'=';
        if two {
            g[2] = b'=';
        }
        let s = unsafe { std::str::from_utf8_unchecked(&g) };
        assert!(s.decode().is_err(), "padding inside the input is rejected");
    }

    /// decode(b64(x)) == x where b64 is the RFC 4648 encoding written out in the harness (the Verus unit c18_b64enc
    /// proves encode(x) == b64(x) for all x, so together: the decoder inverts the encoder). N = 1..6 bytes.
    fn decode_inverts_spec<const N: usize, const M: usize>() {
        let x: [u8; N] = kani::any();
        let mut e = [b'='; M];
        assert!(M == 4 * ((N + 2) / 3));
        let mut g = 0;
        while g * 3 < N {
            let b0 = x[3 * g];
            let b1 = if 3 * g + 1 < N { x[3 * g + 1] } else { 0 };
            let b2 = if 3 * g + 2 < N { x[3 * g + 2] } else { 0 };
            e[4 * g] = RFC4648[(b0 >> 2) as usize];
            e[4 * g + 1] = RFC4648[(((b0 & 3) << 4) | (b1 >> 4)) as usize];
            if 3 * g + 1 < N {
                e[4 * g + 2] = RFC4648[(((b1 & 15) << 2) | (b2 >> 6)) as usize];
            }
            if 3 * g + 2 < N {
                e[4 * g + 3] = RFC4648[(b2 & 63) as usize];
            }
            g += 1;
        }
        let s = unsafe { std::str::from_utf8_unchecked(&e) };
        match s.decode() {
            Ok(d) => {
                assert!(d.len() == N, "decode(b64(x)) has the length of x");
                let j: usize = kani::any();
                kani::assume(j < N);
                assert!(d[j] == x[j], "decode(b64(x)) == x");
            }
            Err(_) => assert!(false, "decode accepts a canonical encoding"),
        }
    }
    #[kani::proof]
    #[kani::unwind(6)]
    pub fn c18_b64_decode_inverts_n1() { decode_inverts_spec::<1, 4>(); }
    #[kani::proof]
    #[kani::unwind(6)]
    pub fn c18_b64_decode_inverts_n2() { decode_inverts_spec::<2, 4>(); }
    #[kani::proof]
    #[kani::unwind(6)]
    pub fn c18_b64_decode_inverts_n3() { decode_inverts_spec::<3, 4>(); }
    #[kani::proof]
    #[kani::unwind(6)]
    pub fn c18_b64_decode_inverts_n4() { decode_inverts_spec::<4, 8>(); }
    #[kani::proof]
    #[kani::unwind(6)]
    pub fn c18_b64_decode_inverts_n6() { decode_inverts_spec::<6, 8>(); }

    /// RFC 3174 transcribed independently of sha1.rs (section 4 padding: 0x80, zeros to 56 mod 64, 64-bit big-endian bit
    /// length; section 6.1 method 1 compression), for a message of exactly N bytes padded into B 64-byte blocks, where
    /// B is the least number of blocks that holds N + 1 + 8 bytes -- computed here from the RFC's rule, not from the code's formula.
    fn sha1_rfc<const N: usize, const B: usize>(m: &[u8; N]) -> [u8; 20] {
        // (slice copies instead of byte loops keep the unwinding bound at the 80 rounds of the compression function)
        let mut buf = vec![0u8; B * 64];
        buf[..N].copy_from_slice(m);
        buf[N] = 0x80;
        let bits = (N as u64) * 8;
        buf[B * 64 - 8..].copy_from_slice(&bits.to_be_bytes());
        let mut h: [u32; 5] = [0x67452301, 0xEFCDAB89, 0x98BADCFE, 0x10325476, 0xC3D2E1F0];
        let mut bi = 0;
        while bi < B {
            let mut w = [0u32; 80];
            let mut t = 0;
            while t < 16 {
                let o = bi * 64 + 4 * t;
                w[t] = ((buf[o] as u32) << 24) | ((buf[o + 1] as u32) << 16) | ((buf[o + 2] as u32) << 8) | (buf[o + 3] as u32);
                t += 1;
            }
            while t < 80 { w[t] = (w[t - 3] ^ w[t - 8] ^ w[t - 14] ^ w[t - 16]).rotate_left(1); t += 1; }
            let (mut a, mut b, mut c, mut d, mut e) = (h[0], h[1], h[2], h[3], h[4]);
            let mut t = 0;
            while t < 80 {
                let (f, kk) = if t < 20 { ((b & c) | ((!b) & d), 0x5A827999u32) } else if t < 40 { (b ^ c ^ d, 0x6ED9EBA1u32) }
                    else if t < 60 { ((b & c) | (b & d) | (c & d), 0x8F1BBCDCu32) } else { (b ^ c ^ d, 0xCA62C1D6u32) };
                // RFC: TEMP = S^5(A) + f(t;B,C,D) + E + W(t) + K(t)   (terms added in the order the code uses: see DESIGN, cost)
                let temp = a.rotate_left(5).wrapping_add(f).wrapping_add(e).wrapping_add(kk).wrapping_add(w[t]);
                e = d; d = c; c = b.rotate_left(30); b = a; a = temp;
                t += 1;
            }
            h[0] = h[0].wrapping_add(a); h[1] = h[1].wrapping_add(b); h[2] = h[2].wrapping_add(c); h[3] = h[3].wrapping_add(d); h[4] = h[4].wrapping_add(e);
            bi += 1;
        }
        let mut out = [0u8; 20];
        let mut j = 0;
        while j < 5 { let bb = h[j].to_be_bytes(); out[4 * j] = bb[0]; out[4 * j + 1] = bb[1]; out[4 * j + 2] = bb[2]; out[4 * j + 3] = bb[3]; j += 1; }
        out
    }
    /// the REAL `SHA1Hash::hash` on EVERY message of exactly N bytes == RFC 3174 (padding included)
    fn sha1_contract<const N: usize, const B: usize>() {
        assert!(B * 64 >= N + 9 && (B - 1) * 64 < N + 9, "harness instance: B is the RFC block count for N");
        let m: [u8; N] = kani::any();
        let got = m.hash();
        let want = sha1_rfc::<N, B>(&m);
        let j: usize = kani::any();
        kani::assume(j < 20);
        assert!(got[j] == want[j], "SHA-1 digest equals RFC 3174 for every message of this length (padding boundary included)");
        kani::cover!(true, "sha1 harness ran to its end");
    }
    /// the same obligation for ONE message per length (every byte 0x61): the padding rule depends on the length only,
    /// so this decides section 4 (padding / block count / length field) of the REAL code for that length; cheap because CBMC
    /// folds the constants. Labelled bounded: it says nothing about other contents.
    fn sha1_fixed<const N: usize, const B: usize>() {
        assert!(B * 64 >= N + 9 && (B - 1) * 64 < N + 9, "harness instance: B is the RFC block count for N");
        let m = [0x61u8; N];
        let got = m.hash();
        let want = sha1_rfc::<N, B>(&m);
        assert!(got == want, "SHA-1 digest equals RFC 3174 at this message length (padding boundary)");
        kani::cover!(true, "sha1 harness ran to its end");
    }
    macro_rules! sha1f {
        ($name:ident, $n:expr, $b:expr) => {
            #[kani::proof]
            #[kani::unwind(200)]   // > 3 blocks * 64 bytes: zero-filling the padded message is a byte loop for CBMC
            pub fn $name() { sha1_fixed::<$n, $b>(); }
        };
    }
    sha1f!(c18_sha1_pad_n000, 0, 1);
    sha1f!(c18_sha1_pad_n001, 1, 1);
    sha1f!(c18_sha1_pad_n054, 54, 1);
    sha1f!(c18_sha1_pad_n055, 55, 1);
    sha1f!(c18_sha1_pad_n056, 56, 2);
    sha1f!(c18_sha1_pad_n057, 57, 2);
    sha1f!(c18_sha1_pad_n060, 60, 2);
    sha1f!(c18_sha1_pad_n063, 63, 2);
    sha1f!(c18_sha1_pad_n064, 64, 2);
    sha1f!(c18_sha1_pad_n065, 65, 2);
    sha1f!(c18_sha1_pad_n119, 119, 2);
    sha1f!(c18_sha1_pad_n120, 120, 3);
    sha1f!(c18_sha1_pad_n121, 121, 3);

    macro_rules! sha1h {
        ($name:ident, $n:expr, $b:expr) => {
            #[kani::proof]
            #[kani::unwind(200)]
            pub fn $name() { sha1_contract::<$n, $b>(); }
        };
    }
    sha1h!(c18_sha1_digest_n00, 0, 1);
    sha1h!(c18_sha1_digest_n01, 1, 1);
    sha1h!(c18_sha1_digest_n03, 3, 1);
    sha1h!(c18_sha1_digest_n55, 55, 1);   // last length that fits one block
    sha1h!(c18_sha1_digest_n56, 56, 2);   // first length that needs a second block (0x80 at offset 56)
    sha1h!(c18_sha1_digest_n57, 57, 2);
    sha1h!(c18_sha1_digest_n60, 60, 2);   // the WebSocket handshake input (24-byte key + 36-byte GUID)
    sha1h!(c18_sha1_digest_n64, 64, 2);
}


/// Ghost socket: the TCP stream is replaced by two byte sequences (DESIGN 2.2). The state lives in a heap object
/// reached through one static pointer: `static mut` arrays make Kani 0.68 report spurious pointer failures as soon
/// as the code under test grows a Vec (measured), a leaked Box does not.
pub mod ghost {
    pub const CAP: usize = 48;
    /// byte buffers on the heap (see above), scalar cursors in plain statics so that CBMC constant-propagates them
    pub struct G {
        pub inb: [u8; CAP],
        pub out: [u8; CAP],
    }
    pub struct S {
        pub in_len: usize,
        pub in_pos: usize,
        /// at most this many bytes are handed out per read() call (TCP segmentation)
        pub chunk: usize,
        /// bytes that have "arrived" so far; a non-blocking read beyond it sees nothing, a blocking read waits
        pub arrived: usize,
        pub nonblocking: bool,
        pub out_len: usize,
        pub reads: usize,
    }
    pub static mut G_PTR: *mut G = std::ptr::null_mut();
    pub static mut ST: S = S { in_len: 0, in_pos: 0, chunk: usize::MAX, arrived: usize::MAX, nonblocking: false, out_len: 0, reads: 0 };
    pub fn g() -> &'static mut S {
        unsafe { &mut *std::ptr::addr_of_mut!(ST) }
    }
    pub fn bufs() -> &'static mut G {
        unsafe { &mut *G_PTR }
    }
    pub fn reset() {
        let b = Box::new(G { inb: [0; CAP], out: [0; CAP] });
        unsafe {
            G_PTR = Box::into_raw(b);
            ST = S { in_len: 0, in_pos: 0, chunk: usize::MAX, arrived: usize::MAX, nonblocking: false, out_len: 0, reads: 0 };
        }
    }
    pub fn push_in(bytes: &[u8]) {
        let g = g();
        bufs().inb[g.in_len..g.in_len + bytes.len()].copy_from_slice(bytes);
        g.in_len += bytes.len();
    }
    pub fn stub_read(_s: &mut humphrey::stream::Stream, buf: &mut [u8]) -> std::io::Result<usize> {
        let g = g();
        g.reads += 1;
        let mut limit = if g.arrived < g.in_len { g.arrived } else { g.in_len };
        if limit <= g.in_pos {
            if g.nonblocking {
                // nothing available right now: `Ok(0)` stands for both "would block" and EOF here, because building
                // an io::Error(WouldBlock) and calling kind() on it costs CBMC > 200 s per occurrence (measured);
                // Frame::from_stream_nonblocking maps Ok(0) and WouldBlock to the same result
                return Ok(0);
            }
            // a blocking read waits until the rest has arrived; with nothing more to come the peer has gone (EOF)
            g.arrived = usize::MAX;
            limit = g.in_len;
            if limit <= g.in_pos {
                return Ok(0);
            }
        }
        let left = limit - g.in_pos;
        let mut n = if buf.len() < left { buf.len() } else { left };
        if n > g.chunk { n = g.chunk; }
        buf[..n].copy_from_slice(&bufs().inb[g.in_pos..g.in_pos + n]);
        g.in_pos += n;
        Ok(n)
    }
    pub fn stub_write(_s: &mut humphrey::stream::Stream, buf: &[u8]) -> std::io::Result<usize> {
        let g = g();
        let n = buf.len();
        assert!(g.out_len + n <= CAP, "ghost OUT capacity");
        bufs().out[g.out_len..g.out_len + n].copy_from_slice(buf);
        g.out_len += n;
        Ok(n)
    }
    pub fn stub_set_nonblocking(_s: &humphrey::stream::Stream) -> std::io::Result<()> {
        g().nonblocking = true;
        Ok(())
    }
    pub fn stub_set_blocking(_s: &humphrey::stream::Stream) -> std::io::Result<()> {
        g().nonblocking = false;
        Ok(())
    }
    pub fn stub_now() -> std::time::Instant {
        unsafe { std::mem::zeroed() }
    }
    pub fn stub_close(_fd: i32) -> i32 {
        0
    }
    pub fn dummy_stream() -> humphrey::stream::Stream {
        use std::os::unix::io::FromRawFd;
        humphrey::stream::Stream::Tcp(unsafe { std::net::TcpStream::from_raw_fd(3) })
    }
}

/// Scripted contract stub for the frame decoder. `Message::from_stream*` is verified against the *contract* of
/// `Frame::from_stream` (decided under C10: "returns the next frame of the stream with its payload unmasked, or
/// ReadError when the stream ends") instead of re-executing the byte-level decoder: the stub hands out the next
/// frame of a symbolic script. Going through the byte level here does not finish (io::Error drop glue, measured).
pub mod frames {
    use crate::error::WebsocketError;
    use crate::frame::{Frame, Opcode};
    use std::convert::TryFrom;
    pub const MAXF: usize = 4;
    pub const MAXP: usize = 2;
    pub struct Script {
        pub n: usize,
        pub next: usize,
        pub plen: usize,
        pub fin: [bool; MAXF],
        pub op: [u8; MAXF],
        pub pl: [[u8; MAXP]; MAXF],
        /// the non-blocking decoder reports `nothing yet`
        pub nb_nothing: bool,
    }
    pub static mut SC: Script = Script { n: 0, next: 0, plen: 0, fin: [false; MAXF], op: [0; MAXF], pl: [[0; MAXP]; MAXF], nb_nothing: false };
    pub fn sc() -> &'static mut Script {
        unsafe { &mut *std::ptr::addr_of_mut!(SC) }
    }
    pub fn reset(plen: usize) {
        let s = sc();
        s.n = 0; s.next = 0; s.plen = plen; s.nb_nothing = false;
    }
    pub fn push(fin: bool, op: u8, pl: &[u8]) {
        let s = sc();
        s.fin[s.n] = fin; s.op[s.n] = op;
        let mut i = 0;
        while i < pl.len() { s.pl[s.n][i] = pl[i]; i += 1; }
        s.n += 1;
    }
    pub fn next_frame() -> Result<Frame, WebsocketError> {
        let s = sc();
        if s.next < s.n {
            let i = s.next;
            s.next += 1;
            let opcode = match Opcode::try_from(s.op[i]) { Ok(o) => o, Err(e) => return Err(e) };
            let mut payload = Vec::with_capacity(MAXP);
            let mut j = 0;
            while j < s.plen { payload.push(s.pl[i][j]); j += 1; }
            Ok(Frame { fin: s.fin[i], rsv: [false; 3], opcode, mask: true, length: s.plen as u64, masking_key: [0; 4], payload })
        } else {
            Err(WebsocketError::ReadError)
        }
    }
    pub fn stub_from_stream<T: std::io::Read>(_stream: T) -> Result<Frame, WebsocketError> {
        next_frame()
    }
    pub fn stub_from_stream_nonblocking(_stream: &mut humphrey::stream::Stream) -> crate::restion::Restion<Frame, WebsocketError> {
        if sc().nb_nothing { return crate::restion::Restion::None; }
        next_frame().into()
    }
}

pub mod c11 {
    use super::frames;
    use super::ghost;
    use crate::error::WebsocketError;
    use crate::frame::{Frame, Opcode};
    use crate::message::Message;
    use crate::stream::WebsocketStream;
    use std::convert::TryFrom;

    use crate::restion::Restion;

    fn is_control(op: u8) -> bool { op >= 8 }

    /// One client script of NF frames with P payload bytes each; FIN bits and opcodes symbolic (restricted to
    /// protocol-valid scripts). The oracle below is the property statement, computed from the symbolic script.
    /// mode 0: blocking recv; mode 1: recv_nonblocking with the first frame already arriving.
    fn script<const NF: usize, const P: usize>(mode: u8, kinds: [(u8, bool); NF]) {
        ghost::reset();
        frames::reset(P);
        let mut exp_out = [0u8; ghost::CAP];
        let mut eo = 0usize;
        let mut msg = [0u8; 16];
        let mut ml = 0usize;
        let mut text = false;
        let mut seen_data = false;
        let mut outcome: u8 = 2; // 0 = Ok(message), 1 = Err(ConnectionClosed), 2 = Err(ReadError): stream ended first
        let mut stop_at = NF;
        let mut f = 0;
        while f < NF {
            // frame kinds are fixed per harness (every protocol-valid script up to the bound is generated, see
            // vf/gen_c11.py); payload bytes are symbolic
            let (op, fin) = kinds[f];
            let pl: [u8; P] = kani::any();
            frames::push(fin, op, &pl);
            if outcome == 2 {
                if op == 9 || op == 8 {
                    exp_out[eo] = 0x80 | (if op == 9 { 10 } else { 8 });
                    exp_out[eo + 1] = P as u8;
                    exp_out[eo + 2..eo + 2 + P].copy_from_slice(&pl);
                    eo += 2 + P;
                    if op == 8 { outcome = 1; stop_at = f + 1; }
                } else if op != 10 {
                    if !seen_data { text = op == 1; seen_data = true; }
                    msg[ml..ml + P].copy_from_slice(&pl);
                    ml += P;
                    if fin { outcome = 0; stop_at = f + 1; }
                }
            }
            f += 1;
        }

        let mut ws = WebsocketStream::new(ghost::dummy_stream());
        let r: Result<Message, WebsocketError> = if mode == 0 {
            ws.recv()
        } else {
            match ws.recv_nonblocking() {
                Restion::Ok(m) => Ok(m),
                Restion::Err(e) => Err(e),
                Restion::None => {
                    assert!(false, "non-blocking receive reports `nothing yet` although a frame has started to arrive");
                    return;
                }
            }
        };
        match r {
            Ok(m) => {
                assert!(outcome == 0, "a message is delivered only when the script completes one");
                assert!(m.bytes().len() == ml, "message length = sum of fragment lengths");
                if ml > 0 {
                    let j: usize = kani::any();
                    kani::assume(j < ml);
                    assert!(m.bytes()[j] == msg[j], "message = fragments concatenated in order");
                }
                assert!(m.is_text() == text, "text/binary taken from the first fragment");
            }
            Err(WebsocketError::ConnectionClosed) => {
                assert!(outcome == 1, "connection-closed is reported exactly for a Close frame");
                assert!(ws.closed, "stream marked closed");
            }
            Err(WebsocketError::ReadError) => assert!(outcome == 2, "read error only when the stream ends inside a message"),
            Err(_) => assert!(false, "no other error for a valid script"),
        }
        {
            let g = ghost::g();
            assert!(frames::sc().next == stop_at, "exactly the frames up to the end of the message are consumed");
            assert!(g.out_len == eo, "server wrote exactly one reply frame per Ping/Close and nothing else");
            if eo > 0 {
                let j: usize = kani::any();
                kani::assume(j < eo);
                assert!(ghost::bufs().out[j] == exp_out[j], "every byte written is part of a well-formed unmasked Pong/Close frame echoing the payload");
            }
        }
        let was_closed = ws.closed;
        drop(ws);
        {
            let g = ghost::g();
            if was_closed {
                assert!(g.out_len == eo, "nothing is sent after the closing handshake");
            } else {
                assert!(g.out_len == eo + 2 && ghost::bufs().out[eo] == 0x88 && ghost::bufs().out[eo + 1] == 0, "dropping an open stream sends one empty Close frame");
            }
        }
        kani::cover!(true, "the script ran to the end of the harness");
    }

    macro_rules! scr {
        ($name:ident, $nf:expr, $p:expr, $mode:expr, $kinds:expr) => {
            #[kani::proof]
            #[kani::unwind(6)]
            #[kani::stub(crate::frame::Frame::from_stream, frames::stub_from_stream)]
            #[kani::stub(crate::frame::Frame::from_stream_nonblocking, frames::stub_from_stream_nonblocking)]
            #[kani::stub(<humphrey::stream::Stream as std::io::Write>::write, ghost::stub_write)]
            #[kani::stub(std::time::Instant::now, ghost::stub_now)]
            #[kani::stub(libc::close, ghost::stub_close)]
            pub fn $name() {
                script::<$nf, $p>($mode, $kinds);
            }
        };
    }
    // BEGIN GENERATED c11 scripts
    scr!(c11_s_P_b, 1, 2, 0, [(9, true)]);
    scr!(c11_s_PP_b, 2, 2, 0, [(9, true), (9, true)]);
    scr!(c11_s_PPP_b, 3, 1, 0, [(9, true), (9, true), (9, true)]);
    scr!(c11_s_PPO_b, 3, 1, 0, [(9, true), (9, true), (10, true)]);
    scr!(c11_s_PPX_b, 3, 1, 0, [(9, true), (9, true), (8, true)]);
    scr!(c11_s_PPT_b, 3, 1, 0, [(9, true), (9, true), (1, true)]);
    scr!(c11_s_PPt_b, 3, 1, 0, [(9, true), (9, true), (1, false)]);
    scr!(c11_s_PPB_b, 3, 1, 0, [(9, true), (9, true), (2, true)]);
    scr!(c11_s_PPb_b, 3, 1, 0, [(9, true), (9, true), (2, false)]);
    scr!(c11_s_PO_b, 2, 2, 0, [(9, true), (10, true)]);
    scr!(c11_s_POP_b, 3, 1, 0, [(9, true), (10, true), (9, true)]);
    scr!(c11_s_POO_b, 3, 1, 0, [(9, true), (10, true), (10, true)]);
    scr!(c11_s_POX_b, 3, 1, 0, [(9, true), (10, true), (8, true)]);
    scr!(c11_s_POT_b, 3, 1, 0, [(9, true), (10, true), (1, true)]);
    scr!(c11_s_POt_b, 3, 1, 0, [(9, true), (10, true), (1, false)]);
    scr!(c11_s_POB_b, 3, 1, 0, [(9, true), (10, true), (2, true)]);
    scr!(c11_s_POb_b, 3, 1, 0, [(9, true), (10, true), (2, false)]);
    scr!(c11_s_PX_b, 2, 2, 0, [(9, true), (8, true)]);
    scr!(c11_s_PT_b, 2, 2, 0, [(9, true), (1, true)]);
    scr!(c11_s_Pt_b, 2, 2, 0, [(9, true), (1, false)]);
    scr!(c11_s_PtP_b, 3, 1, 0, [(9, true), (1, false), (9, true)]);
    scr!(c11_s_PtO_b, 3, 1, 0, [(9, true), (1, false), (10, true)]);
    scr!(c11_s_PtX_b, 3, 1, 0, [(9, true), (1, false), (8, true)]);
    scr!(c11_s_PtC_b, 3, 1, 0, [(9, true), (1, false), (0, true)]);
    scr!(c11_s_Ptc_b, 3, 1, 0, [(9, true), (1, false), (0, false)]);
    scr!(c11_s_PB_b, 2, 2, 0, [(9, true), (2, true)]);
    scr!(c11_s_Pb_b, 2, 2, 0, [(9, true), (2, false)]);
    scr!(c11_s_PbP_b, 3, 1, 0, [(9, true), (2, false), (9, true)]);
    scr!(c11_s_PbO_b, 3, 1, 0, [(9, true), (2, false), (10, true)]);
    scr!(c11_s_PbX_b, 3, 1, 0, [(9, true), (2, false), (8, true)]);
    scr!(c11_s_PbC_b, 3, 1, 0, [(9, true), (2, false), (0, true)]);
    scr!(c11_s_Pbc_b, 3, 1, 0, [(9, true), (2, false), (0, false)]);
    scr!(c11_s_O_b, 1, 2, 0, [(10, true)]);
    scr!(c11_s_OP_b, 2, 2, 0, [(10, true), (9, true)]);
    scr!(c11_s_OPP_b, 3, 1, 0, [(10, true), (9, true), (9, true)]);
    scr!(c11_s_OPO_b, 3, 1, 0, [(10, true), (9, true), (10, true)]);
    scr!(c11_s_OPX_b, 3, 1, 0, [(10, true), (9, true), (8, true)]);
    scr!(c11_s_OPT_b, 3, 1, 0, [(10, true), (9, true), (1, true)]);
    scr!(c11_s_OPt_b, 3, 1, 0, [(10, true), (9, true), (1, false)]);
    scr!(c11_s_OPB_b, 3, 1, 0, [(10, true), (9, true), (2, true)]);
    scr!(c11_s_OPb_b, 3, 1, 0, [(10, true), (9, true), (2, false)]);
    scr!(c11_s_OO_b, 2, 2, 0, [(10, true), (10, true)]);
    scr!(c11_s_OOP_b, 3, 1, 0, [(10, true), (10, true), (9, true)]);
    scr!(c11_s_OOO_b, 3, 1, 0, [(10, true), (10, true), (10, true)]);
    scr!(c11_s_OOX_b, 3, 1, 0, [(10, true), (10, true), (8, true)]);
    scr!(c11_s_OOT_b, 3, 1, 0, [(10, true), (10, true), (1, true)]);
    scr!(c11_s_OOt_b, 3, 1, 0, [(10, true), (10, true), (1, false)]);
    scr!(c11_s_OOB_b, 3, 1, 0, [(10, true), (10, true), (2, true)]);
    scr!(c11_s_OOb_b, 3, 1, 0, [(10, true), (10, true), (2, false)]);
    scr!(c11_s_OX_b, 2, 2, 0, [(10, true), (8, true)]);
    scr!(c11_s_OT_b, 2, 2, 0, [(10, true), (1, true)]);
    scr!(c11_s_Ot_b, 2, 2, 0, [(10, true), (1, false)]);
    scr!(c11_s_OtP_b, 3, 1, 0, [(10, true), (1, false), (9, true)]);
    scr!(c11_s_OtO_b, 3, 1, 0, [(10, true), (1, false), (10, true)]);
    scr!(c11_s_OtX_b, 3, 1, 0, [(10, true), (1, false), (8, true)]);
    scr!(c11_s_OtC_b, 3, 1, 0, [(10, true), (1, false), (0, true)]);
    scr!(c11_s_Otc_b, 3, 1, 0, [(10, true), (1, false), (0, false)]);
    scr!(c11_s_OB_b, 2, 2, 0, [(10, true), (2, true)]);
    scr!(c11_s_Ob_b, 2, 2, 0, [(10, true), (2, false)]);
    scr!(c11_s_ObP_b, 3, 1, 0, [(10, true), (2, false), (9, true)]);
    scr!(c11_s_ObO_b, 3, 1, 0, [(10, true), (2, false), (10, true)]);
    scr!(c11_s_ObX_b, 3, 1, 0, [(10, true), (2, false), (8, true)]);
    scr!(c11_s_ObC_b, 3, 1, 0, [(10, true), (2, false), (0, true)]);
    scr!(c11_s_Obc_b, 3, 1, 0, [(10, true), (2, false), (0, false)]);
    scr!(c11_s_X_b, 1, 2, 0, [(8, true)]);
    scr!(c11_s_T_b, 1, 2, 0, [(1, true)]);
    scr!(c11_s_t_b, 1, 2, 0, [(1, false)]);
    scr!(c11_s_tP_b, 2, 2, 0, [(1, false), (9, true)]);
    scr!(c11_s_tPP_b, 3, 1, 0, [(1, false), (9, true), (9, true)]);
    scr!(c11_s_tPO_b, 3, 1, 0, [(1, false), (9, true), (10, true)]);
    scr!(c11_s_tPX_b, 3, 1, 0, [(1, false), (9, true), (8, true)]);
    scr!(c11_s_tPC_b, 3, 1, 0, [(1, false), (9, true), (0, true)]);
    scr!(c11_s_tPc_b, 3, 1, 0, [(1, false), (9, true), (0, false)]);
    scr!(c11_s_tO_b, 2, 2, 0, [(1, false), (10, true)]);
    scr!(c11_s_tOP_b, 3, 1, 0, [(1, false), (10, true), (9, true)]);
    scr!(c11_s_tOO_b, 3, 1, 0, [(1, false), (10, true), (10, true)]);
    scr!(c11_s_tOX_b, 3, 1, 0, [(1, false), (10, true), (8, true)]);
    scr!(c11_s_tOC_b, 3, 1, 0, [(1, false), (10, true), (0, true)]);
    scr!(c11_s_tOc_b, 3, 1, 0, [(1, false), (10, true), (0, false)]);
    scr!(c11_s_tX_b, 2, 2, 0, [(1, false), (8, true)]);
    scr!(c11_s_tC_b, 2, 2, 0, [(1, false), (0, true)]);
    scr!(c11_s_tc_b, 2, 2, 0, [(1, false), (0, false)]);
    scr!(c11_s_tcP_b, 3, 1, 0, [(1, false), (0, false), (9, true)]);
    scr!(c11_s_tcO_b, 3, 1, 0, [(1, false), (0, false), (10, true)]);
    scr!(c11_s_tcX_b, 3, 1, 0, [(1, false), (0, false), (8, true)]);
    scr!(c11_s_tcC_b, 3, 1, 0, [(1, false), (0, false), (0, true)]);
    scr!(c11_s_tcc_b, 3, 1, 0, [(1, false), (0, false), (0, false)]);
    scr!(c11_s_B_b, 1, 2, 0, [(2, true)]);
    scr!(c11_s_b_b, 1, 2, 0, [(2, false)]);
    scr!(c11_s_bP_b, 2, 2, 0, [(2, false), (9, true)]);
    scr!(c11_s_bPP_b, 3, 1, 0, [(2, false), (9, true), (9, true)]);
    scr!(c11_s_bPO_b, 3, 1, 0, [(2, false), (9, true), (10, true)]);
    scr!(c11_s_bPX_b, 3, 1, 0, [(2, false), (9, true), (8, true)]);
    scr!(c11_s_bPC_b, 3, 1, 0, [(2, false), (9, true), (0, true)]);
    scr!(c11_s_bPc_b, 3, 1, 0, [(2, false), (9, true), (0, false)]);
    scr!(c11_s_bO_b, 2, 2, 0, [(2, false), (10, true)]);
    scr!(c11_s_bOP_b, 3, 1, 0, [(2, false), (10, true), (9, true)]);
    scr!(c11_s_bOO_b, 3, 1, 0, [(2, false), (10, true), (10, true)]);
    scr!(c11_s_bOX_b, 3, 1, 0, [(2, false), (10, true), (8, true)]);
    scr!(c11_s_bOC_b, 3, 1, 0, [(2, false), (10, true), (0, true)]);
    scr!(c11_s_bOc_b, 3, 1, 0, [(2, false), (10, true), (0, false)]);
    scr!(c11_s_bX_b, 2, 2, 0, [(2, false), (8, true)]);
    scr!(c11_s_bC_b, 2, 2, 0, [(2, false), (0, true)]);
    scr!(c11_s_bc_b, 2, 2, 0, [(2, false), (0, false)]);
    scr!(c11_s_bcP_b, 3, 1, 0, [(2, false), (0, false), (9, true)]);
    scr!(c11_s_bcO_b, 3, 1, 0, [(2, false), (0, false), (10, true)]);
    scr!(c11_s_bcX_b, 3, 1, 0, [(2, false), (0, false), (8, true)]);
    scr!(c11_s_bcC_b, 3, 1, 0, [(2, false), (0, false), (0, true)]);
    scr!(c11_s_bcc_b, 3, 1, 0, [(2, false), (0, false), (0, false)]);
    scr!(c11_s_P_n, 1, 2, 1, [(9, true)]);
    scr!(c11_s_PP_n, 2, 2, 1, [(9, true), (9, true)]);
    scr!(c11_s_PO_n, 2, 2, 1, [(9, true), (10, true)]);
    scr!(c11_s_PX_n, 2, 2, 1, [(9, true), (8, true)]);
    scr!(c11_s_PT_n, 2, 2, 1, [(9, true), (1, true)]);
    scr!(c11_s_Pt_n, 2, 2, 1, [(9, true), (1, false)]);
    scr!(c11_s_PB_n, 2, 2, 1, [(9, true), (2, true)]);
    scr!(c11_s_Pb_n, 2, 2, 1, [(9, true), (2, false)]);
    scr!(c11_s_O_n, 1, 2, 1, [(10, true)]);
    scr!(c11_s_OP_n, 2, 2, 1, [(10, true), (9, true)]);
    scr!(c11_s_OO_n, 2, 2, 1, [(10, true), (10, true)]);
    scr!(c11_s_OX_n, 2, 2, 1, [(10, true), (8, true)]);
    scr!(c11_s_OT_n, 2, 2, 1, [(10, true), (1, true)]);
    scr!(c11_s_Ot_n, 2, 2, 1, [(10, true), (1, false)]);
    scr!(c11_s_OB_n, 2, 2, 1, [(10, true), (2, true)]);
    scr!(c11_s_Ob_n, 2, 2, 1, [(10, true), (2, false)]);
    scr!(c11_s_X_n, 1, 2, 1, [(8, true)]);
    scr!(c11_s_T_n, 1, 2, 1, [(1, true)]);
    scr!(c11_s_t_n, 1, 2, 1, [(1, false)]);
    scr!(c11_s_tP_n, 2, 2, 1, [(1, false), (9, true)]);
    scr!(c11_s_tO_n, 2, 2, 1, [(1, false), (10, true)]);
    scr!(c11_s_tX_n, 2, 2, 1, [(1, false), (8, true)]);
    scr!(c11_s_tC_n, 2, 2, 1, [(1, false), (0, true)]);
    scr!(c11_s_tc_n, 2, 2, 1, [(1, false), (0, false)]);
    scr!(c11_s_B_n, 1, 2, 1, [(2, true)]);
    scr!(c11_s_b_n, 1, 2, 1, [(2, false)]);
    scr!(c11_s_bP_n, 2, 2, 1, [(2, false), (9, true)]);
    scr!(c11_s_bO_n, 2, 2, 1, [(2, false), (10, true)]);
    scr!(c11_s_bX_n, 2, 2, 1, [(2, false), (8, true)]);
    scr!(c11_s_bC_n, 2, 2, 1, [(2, false), (0, true)]);
    scr!(c11_s_bc_n, 2, 2, 1, [(2, false), (0, false)]);
    // END GENERATED c11 scripts

    /// Message::from_stream_nonblocking when the frame decoder reports `nothing yet`: reports nothing yet, writes nothing.
    #[kani::proof]
    #[kani::unwind(6)]
    #[kani::stub(crate::frame::Frame::from_stream, frames::stub_from_stream)]
    #[kani::stub(crate::frame::Frame::from_stream_nonblocking, frames::stub_from_stream_nonblocking)]
    #[kani::stub(<humphrey::stream::Stream as std::io::Write>::write, ghost::stub_write)]
    #[kani::stub(std::time::Instant::now, ghost::stub_now)]
    #[kani::stub(libc::close, ghost::stub_close)]
    pub fn c11_message_nonblocking_nothing_yet() {
        ghost::reset();
        frames::reset(0);
        frames::sc().nb_nothing = true;
        let mut ws = WebsocketStream::new(ghost::dummy_stream());
        let r = ws.recv_nonblocking();
        assert!(matches!(r, Restion::None), "nothing yet is passed through");
        assert!(ghost::g().out_len == 0 && !ws.closed);
        std::mem::forget(ws);
    }

    /// Frame::from_stream_nonblocking, modular: the rest-of-frame decoder `from_stream_inner` is replaced by a stub that
    /// records how it was called (its contract is the C10 decoder contract). Obligation: when `arrived` >= 1 bytes of a
    /// frame are there at the time of the non-blocking header read, the inner decoder is entered with the frame's real
    /// two header bytes, after exactly two bytes were consumed, on a stream that is blocking again -- i.e. the result
    /// is what a blocking read gives; with nothing arrived the answer is `nothing yet` and no byte is consumed.
    pub mod inner {
        pub struct Rec { pub called: bool, pub h0: u8, pub h1: u8, pub pos: usize, pub nonblocking: bool }
        pub static mut REC: Rec = Rec { called: false, h0: 0, h1: 0, pos: 0, nonblocking: false };
        pub fn rec() -> &'static mut Rec { unsafe { &mut *std::ptr::addr_of_mut!(REC) } }
        pub fn stub_inner<T: std::io::Read>(_stream: T, header: [u8; 2]) -> Result<crate::frame::Frame, crate::error::WebsocketError> {
            let r = rec();
            r.called = true; r.h0 = header[0]; r.h1 = header[1];
            r.pos = super::ghost::g().in_pos;
            r.nonblocking = super::ghost::g().nonblocking;
            Err(crate::error::WebsocketError::InvalidOpcode)
        }
    }
    fn frame_nonblocking_partial(arrived: usize) {
        ghost::reset();
        { let r = inner::rec(); r.called = false; }
        let wire: [u8; 6] = kani::any();
        ghost::push_in(&wire);
        ghost::g().arrived = arrived;
        let mut st = ghost::dummy_stream();
        let r = Frame::from_stream_nonblocking(&mut st);
        let rec = inner::rec();
        if arrived == 0 {
            assert!(matches!(r, Restion::None), "nothing arrived => nothing yet");
            assert!(!rec.called && ghost::g().in_pos == 0, "no byte consumed");
        } else {
            assert!(!matches!(r, Restion::None), "`nothing yet` although a frame has started to arrive");
            assert!(rec.called, "the frame is decoded");
            assert!(rec.h0 == wire[0] && rec.h1 == wire[1], "the decoder continues from the frame's real two header bytes");
            assert!(rec.pos == 2, "exactly the header has been consumed when the rest of the frame is decoded");
            assert!(!rec.nonblocking, "the rest of the frame is read in blocking mode");
            assert!(matches!(r, Restion::Err(WebsocketError::InvalidOpcode)), "the inner decoder's result is returned unchanged");
        }
        assert!(!ghost::g().nonblocking, "stream is left in blocking mode");
        std::mem::forget(st);
    }
    macro_rules! fnb {
        ($name:ident, $arr:expr) => {
            #[kani::proof]
            #[kani::unwind(5)]
            #[kani::stub(<humphrey::stream::Stream as std::io::Read>::read, ghost::stub_read)]
            #[kani::stub(humphrey::stream::Stream::set_nonblocking, ghost::stub_set_nonblocking)]
            #[kani::stub(humphrey::stream::Stream::set_blocking, ghost::stub_set_blocking)]
            #[kani::stub(crate::frame::Frame::from_stream_inner, inner::stub_inner)]
            pub fn $name() { frame_nonblocking_partial($arr); }
        };
    }
    fnb!(c11_frame_nonblocking_arrived0, 0);
    fnb!(c11_frame_nonblocking_arrived1, 1);
    fnb!(c11_frame_nonblocking_arrived2, 2);
    fnb!(c11_frame_nonblocking_arrived6, 6);

    /// Opening handshake without a Sec-WebSocket-Key: not upgraded, nothing written (the only input is header presence).
    #[kani::proof]
    #[kani::unwind(20)]
    #[kani::stub(<humphrey::stream::Stream as std::io::Write>::write, ghost::stub_write)]
    #[kani::stub(libc::close, ghost::stub_close)]
    pub fn c11_handshake_without_key() {
        ghost::reset();
        let request = humphrey::http::Request {
            method: humphrey::http::method::Method::Get,
            uri: String::new(),
            query: String::new(),
            version: String::new(),
            headers: humphrey::http::headers::Headers::new(),
            content: None,
            address: humphrey::http::address::Address { origin_addr: std::net::IpAddr::V4(std::net::Ipv4Addr::new(127, 0, 0, 1)), proxies: Vec::new(), port: 1 },
        };
        // through the public entry point: the user handler must not run and nothing may be written
        let h = crate::handler::websocket_handler(|_ws: WebsocketStream, _state: std::sync::Arc<()>| {
            assert!(false, "a request without a key is not upgraded");
        });
        h(request, ghost::dummy_stream(), std::sync::Arc::new(()));
        assert!(ghost::g().out_len == 0, "nothing is written");
    }

    /// Dropping an open stream sends exactly one empty Close frame.
    #[kani::proof]
    #[kani::unwind(6)]
    #[kani::stub(<humphrey::stream::Stream as std::io::Write>::write, ghost::stub_write)]
    #[kani::stub(std::time::Instant::now, ghost::stub_now)]
    #[kani::stub(libc::close, ghost::stub_close)]
    pub fn c11_drop_sends_close() {
        ghost::reset();
        {
            let _ws = WebsocketStream::new(ghost::dummy_stream());
        }
        let o = &ghost::bufs().out;
        assert!(ghost::g().out_len == 2 && o[0] == 0x88 && o[1] == 0x00, "dropping an open stream sends an empty Close frame");
    }

    /// Non-blocking receive with nothing arrived: `nothing yet`, no byte consumed, nothing written.
    #[kani::proof]
    #[kani::unwind(6)]
    #[kani::stub(<humphrey::stream::Stream as std::io::Read>::read, ghost::stub_read)]
    #[kani::stub(<humphrey::stream::Stream as std::io::Write>::write, ghost::stub_write)]
    #[kani::stub(humphrey::stream::Stream::set_nonblocking, ghost::stub_set_nonblocking)]
    #[kani::stub(humphrey::stream::Stream::set_blocking, ghost::stub_set_blocking)]
    #[kani::stub(std::time::Instant::now, ghost::stub_now)]
    #[kani::stub(libc::close, ghost::stub_close)]
    pub fn c11_nonblocking_nothing_yet() {
        ghost::reset();
        let mut ws = WebsocketStream::new(ghost::dummy_stream());
        let r = ws.recv_nonblocking();
        assert!(matches!(r, Restion::None), "no frame started => nothing yet");
        assert!(ghost::g().in_pos == 0 && ghost::g().out_len == 0 && !ghost::g().nonblocking, "stream left blocking, untouched");
        std::mem::forget(ws);
    }

    /// send / ping write exactly one well-formed unmasked frame.
    #[kani::proof]
    #[kani::unwind(8)]
    #[kani::stub(<humphrey::stream::Stream as std::io::Read>::read, ghost::stub_read)]
    #[kani::stub(<humphrey::stream::Stream as std::io::Write>::write, ghost::stub_write)]
    #[kani::stub(std::time::Instant::now, ghost::stub_now)]
    #[kani::stub(libc::close, ghost::stub_close)]
    pub fn c11_send_and_ping_frames() {
        ghost::reset();
        let mut ws = WebsocketStream::new(ghost::dummy_stream());
        let pl: [u8; 3] = kani::any();
        assert!(ws.send(Message::new_binary(pl)).is_ok());
        assert!(ws.ping().is_ok());
        {
            let g = ghost::g();
            assert!(g.out_len == 7, "binary message of 3 bytes = 5-byte frame, ping = 2-byte frame");
            let o = &ghost::bufs().out;
            assert!(o[0] == 0x82 && o[1] == 3 && o[2] == pl[0] && o[3] == pl[1] && o[4] == pl[2], "unmasked binary frame");
            assert!(o[5] == 0x89 && o[6] == 0, "empty ping frame");
        }
        std::mem::forget(ws);
    }
}

#[cfg(test)]
mod playback {
    include!(concat!(env!("HUMPHREY_VERIF"), "/build/playback/in_ws_playback.rs"));
}

pub mod probe {
    use crate::frame::Frame;
    #[kani::proof]
    #[kani::unwind(12)]
    pub fn probe_plain10() {
        let wire: [u8; 10] = kani::any();
        kani::assume(wire[1] & 0x7f < 126);
        let r = Frame::from_stream(&wire[..]);
        if let Ok(f) = r {
            assert!(f.payload.len() as u64 == f.length);
        }
    }
}
pub mod probe2 {
    use crate::frame::Frame;
    use super::ContractReader;
    #[kani::proof]
    #[kani::unwind(12)]
    pub fn probe_chunked10() {
        let wire: [u8; 10] = kani::any();
        kani::assume(wire[1] & 0x7f < 126);
        let mut rd = ContractReader { data: &wire[..], pos: 0 };
        let r = Frame::from_stream(&mut rd);
        if let Ok(f) = r {
            assert!(f.payload.len() as u64 == f.length);
        }
    }
    #[kani::proof]
    #[kani::unwind(12)]
    pub fn probe_avail10() {
        let wire: [u8; 10] = kani::any();
        kani::assume(wire[1] & 0x7f < 126);
        let avail: usize = kani::any();
        kani::assume(avail >= 2 && avail <= 10);
        let r = Frame::from_stream(&wire[..avail]);
        if let Ok(f) = r {
            assert!(f.payload.len() as u64 == f.length);
        }
    }
}
