// Kani harnesses compiled inside humphrey_ws (crate root, so `crate::frame` and pub(crate) fields are visible).

/// Contract reader. The frame decoder is verified against the *contract* of `Read::read_exact` ("fill the whole
/// buffer from the stream, whatever the segmentation, or fail") rather than against std's retry loop: `read_exact`
/// below implements exactly that contract over a byte slice, and a direct `read` -- whose result would depend on the
/// segmentation -- is an obligation failure. `pos` is the ghost count of consumed bytes.
pub struct ContractReader<'a> {
    pub data: &'a [u8],
    pub pos: usize,
}
impl<'a> std::io::Read for ContractReader<'a> {
    fn read(&mut self, _buf: &mut [u8]) -> std::io::Result<usize> {
        assert!(false, "decoder reads the stream only through read_exact (segmentation independence)");
        Ok(0)
    }
    fn read_exact(&mut self, buf: &mut [u8]) -> std::io::Result<()> {
        let left = self.data.len() - self.pos;
        if buf.len() > left {
            self.pos = self.data.len();
            return Err(std::io::Error::from(std::io::ErrorKind::UnexpectedEof));
        }
        buf.copy_from_slice(&self.data[self.pos..self.pos + buf.len()]);
        self.pos += buf.len();
        Ok(())
    }
}

pub mod c10 {
    use super::ContractReader;
    use crate::error::WebsocketError;
    use crate::frame::{Frame, Opcode};
    use std::convert::TryFrom;

    /// Opcode::try_from over all 256 byte values (loop-free => complete).
    #[kani::proof]
    pub fn c10_opcode_try_from_complete() {
        let v: u8 = kani::any();
        let r = Opcode::try_from(v);
        match v {
            0x0 => assert!(matches!(r, Ok(Opcode::Continuation))),
            0x1 => assert!(matches!(r, Ok(Opcode::Text))),
            0x2 => assert!(matches!(r, Ok(Opcode::Binary))),
            0x8 => assert!(matches!(r, Ok(Opcode::Close))),
            0x9 => assert!(matches!(r, Ok(Opcode::Ping))),
            0xA => assert!(matches!(r, Ok(Opcode::Pong))),
            _ => assert!(matches!(r, Err(WebsocketError::InvalidOpcode))),
        }
        if let Ok(o) = r {
            assert!(o as u8 == v, "opcode value round-trips");
        }
        kani::cover!(r.is_ok(), "a valid opcode exists");
        kani::cover!(r.is_err(), "a reserved opcode exists");
    }

    fn valid_opcode(v: u8) -> bool {
        matches!(v, 0 | 1 | 2 | 8 | 9 | 10)
    }

    /// The decoder contract, for every 2-byte header and every remainder of up to N bytes of which only `avail`
    /// are actually supplied (truncation at every offset), delivered in reads of at most `chunk` bytes.
    /// The decoder contract for every input of exactly N bytes (all 2^16 headers, every remainder). Running it for
    /// N = 2..=K covers every truncation offset of every frame whose wire image is at most K bytes.
    fn decode_contract<const N: usize>() {
        let wire: [u8; N] = kani::any();
        let avail: usize = N;
        let b0 = wire[0];
        let b1 = wire[1];
        let mut rd = ContractReader { data: &wire[..avail], pos: 0 };
        let r = Frame::from_stream(&mut rd);

        // ---- RFC 6455 5.2, written independently of the code ----
        let op = b0 & 0x0F;
        if !valid_opcode(op) {
            assert!(matches!(r, Err(WebsocketError::InvalidOpcode)), "reserved opcode is rejected");
            return;
        }
        let mask = b1 & 0x80 != 0;
        let len7 = (b1 & 0x7F) as u64;
        let ext: usize = if len7 == 126 { 2 } else if len7 == 127 { 8 } else { 0 };
        if avail < 2 + ext {
            assert!(matches!(r, Err(WebsocketError::ReadError)), "truncated extended length is a read error");
            return;
        }
        let length: u64 = if len7 == 126 {
            ((wire[2] as u64) << 8) | wire[3] as u64
        } else if len7 == 127 {
            ((wire[2] as u64) << 56) | ((wire[3] as u64) << 48) | ((wire[4] as u64) << 40) | ((wire[5] as u64) << 32)
                | ((wire[6] as u64) << 24) | ((wire[7] as u64) << 16) | ((wire[8] as u64) << 8) | wire[9] as u64
        } else {
            len7
        };
        let klen = if mask { 4 } else { 0 };
        let need: u128 = 2 + ext as u128 + klen as u128 + length as u128;
        if (avail as u128) < need {
            assert!(matches!(r, Err(WebsocketError::ReadError)), "truncated frame is a read error");
            kani::cover!(true, "a truncated frame was rejected");
            return;
        }
        let f = match r {
            Ok(f) => f,
            Err(_) => {
                assert!(false, "a complete frame decodes");
                return;
            }
        };
        let koff = 2 + ext;
        let poff = koff + klen;
        assert!(f.fin == (b0 & 0x80 != 0), "FIN bit");
        assert!(f.rsv[0] == (b0 & 0x40 != 0) && f.rsv[1] == (b0 & 0x20 != 0) && f.rsv[2] == (b0 & 0x10 != 0), "RSV bits");
        assert!(f.opcode as u8 == op, "opcode");
        assert!(f.mask == mask, "MASK bit");
        assert!(f.length == length, "length field");
        assert!(f.payload.len() as u64 == length, "payload length equals length field");
        // universally quantified by a symbolic index instead of a loop
        let i: usize = kani::any();
        kani::assume(i < 4);
        assert!(f.masking_key[i] == if mask { wire[koff + i] } else { 0 }, "masking key");
        if !f.payload.is_empty() {
            let j: usize = kani::any();
            kani::assume(j < f.payload.len());
            assert!(f.payload[j] == wire[poff + j] ^ f.masking_key[j % 4], "payload is unmasked with key[i % 4]");
        }
        assert!(rd.pos as u128 == need, "exactly the frame's bytes are consumed");
        kani::cover!(true, "a complete frame was decoded");
    }

    #[kani::proof]
    #[kani::unwind(4)]
    pub fn c10_decode_contract_n02() {
        decode_contract::<2>();
    }
    #[kani::proof]
    #[kani::unwind(4)]
    pub fn c10_decode_contract_n03() {
        decode_contract::<3>();
    }
    #[kani::proof]
    #[kani::unwind(4)]
    pub fn c10_decode_contract_n04() {
        decode_contract::<4>();
    }
    #[kani::proof]
    #[kani::unwind(5)]
    pub fn c10_decode_contract_n05() {
        decode_contract::<5>();
    }
    #[kani::proof]
    #[kani::unwind(6)]
    pub fn c10_decode_contract_n06() {
        decode_contract::<6>();
    }
    #[kani::proof]
    #[kani::unwind(7)]
    pub fn c10_decode_contract_n07() {
        decode_contract::<7>();
    }
    #[kani::proof]
    #[kani::unwind(8)]
    pub fn c10_decode_contract_n08() {
        decode_contract::<8>();
    }

    /// Exact-shape instance of the same contract: payload length L (7-bit form), MASK bit, and X trailing bytes that
    /// must not be consumed; every other header bit, the key and every payload byte symbolic. Concrete sizes keep CBMC
    /// cheap, so this reaches payloads the fully symbolic-length harnesses above cannot.
    fn decode_exact<const L: usize, const N: usize>(masked: bool, extra: usize) {
        decode_exact_form::<L, N>(masked, extra, 0)
    }
    /// form: 0 = 7-bit length, 1 = 16-bit extended length, 2 = 64-bit extended length (the harness writes the
    /// length field for L in that form; the decoder must accept any form, the encoder contract picks the shortest).
    fn decode_exact_form<const L: usize, const N: usize>(masked: bool, extra: usize, form: u8) {
        let mut wire: [u8; N] = kani::any();
        let klen = if masked { 4 } else { 0 };
        let ext = if form == 0 { 0 } else if form == 1 { 2 } else { 8 };
        assert!(N == 2 + ext + klen + L + extra);
        let mbit = if masked { 0x80 } else { 0 };
        if form == 0 {
            wire[1] = mbit | (L as u8);
        } else if form == 1 {
            wire[1] = mbit | 126;
            wire[2] = (L >> 8) as u8;
            wire[3] = L as u8;
        } else {
            wire[1] = mbit | 127;
            let be = (L as u64).to_be_bytes();
            wire[2..10].copy_from_slice(&be);
        }
        let b0 = wire[0];
        let mut rd = ContractReader { data: &wire[..], pos: 0 };
        let r = Frame::from_stream(&mut rd);
        if !valid_opcode(b0 & 0x0F) {
            assert!(matches!(r, Err(WebsocketError::InvalidOpcode)), "reserved opcode is rejected");
            return;
        }
        let f = match r {
            Ok(f) => f,
            Err(_) => {
                assert!(false, "a complete frame decodes");
                return;
            }
        };
        assert!(f.fin == (b0 & 0x80 != 0), "FIN bit");
        assert!(f.rsv[0] == (b0 & 0x40 != 0) && f.rsv[1] == (b0 & 0x20 != 0) && f.rsv[2] == (b0 & 0x10 != 0), "RSV bits");
        assert!(f.opcode as u8 == b0 & 0x0F, "opcode");
        assert!(f.mask == masked, "MASK bit");
        assert!(f.length == L as u64 && f.payload.len() == L, "length");
        let i: usize = kani::any();
        kani::assume(i < 4);
        assert!(f.masking_key[i] == if masked { wire[2 + ext + i] } else { 0 }, "masking key");
        if L > 0 {
            let j: usize = kani::any();
            kani::assume(j < L);
            assert!(f.payload[j] == wire[2 + ext + klen + j] ^ f.masking_key[j % 4], "payload is unmasked with key[i % 4]");
        }
        assert!(rd.pos == N - extra, "exactly the frame's bytes are consumed");
        kani::cover!(true, "a complete frame was decoded");
    }
    #[kani::proof]
    #[kani::unwind(7)]
    pub fn c10_decode_exact_l05_m0() {
        decode_exact::<5, 9>(false, 2);
    }
    #[kani::proof]
    #[kani::unwind(7)]
    pub fn c10_decode_exact_l05_m1() {
        decode_exact::<5, 13>(true, 2);
    }
    #[kani::proof]
    #[kani::unwind(10)]
    pub fn c10_decode_exact_l08_m0() {
        decode_exact::<8, 12>(false, 2);
    }
    #[kani::proof]
    #[kani::unwind(10)]
    pub fn c10_decode_exact_l08_m1() {
        decode_exact::<8, 16>(true, 2);
    }
    #[kani::proof]
    #[kani::unwind(14)]
    pub fn c10_decode_exact_l12_m0() {
        decode_exact::<12, 16>(false, 2);
    }
    #[kani::proof]
    #[kani::unwind(14)]
    pub fn c10_decode_exact_l12_m1() {
        decode_exact::<12, 20>(true, 2);
    }
    #[kani::proof]
    #[kani::unwind(5)]
    pub fn c10_decode_exact_f2_l3_m1() {
        decode_exact_form::<3, 18>(true, 1, 2);
    }
    #[kani::proof]
    #[kani::unwind(6)]
    pub fn c10_decode_exact_f1_l3_m1() {
        decode_exact_form::<3, 12>(true, 1, 1);
    }
    #[kani::proof]
    #[kani::unwind(6)]
    pub fn c10_decode_exact_f1_l4_m0() {
        decode_exact_form::<4, 9>(false, 1, 1);
    }

    /// Encode -> decode round trip on the real encoder and the real decoder: any header bits, any key, any payload
    /// bytes, payload length L. The decoded frame equals the original except that the payload comes back unmasked
    /// (the encoder writes `payload` as is; a masked frame's payload field holds the masked bytes).
    fn roundtrip<const L: usize>(mask: bool) {
        let payload: [u8; L] = kani::any();
        let opv: u8 = kani::any();
        let opcode = match Opcode::try_from(opv) {
            Ok(o) => o,
            Err(_) => return,
        };
        let f = Frame {
            fin: kani::any(),
            rsv: [kani::any(), kani::any(), kani::any()],
            opcode,
            mask,
            length: L as u64,
            masking_key: kani::any(),
            payload: payload.to_vec(),
        };
        let (fin, rsv, key) = (f.fin, f.rsv, f.masking_key);
        let bytes: Vec<u8> = f.into();
        assert!(bytes.len() == 2 + if mask { 4 } else { 0 } + L, "shortest (7-bit) length form is used");
        let mut rd = ContractReader { data: &bytes[..], pos: 0 };
        let g = match Frame::from_stream(&mut rd) {
            Ok(g) => g,
            Err(_) => {
                assert!(false, "an encoded frame decodes");
                return;
            }
        };
        assert!(g.fin == fin && g.rsv == rsv && g.opcode == opcode && g.mask == mask && g.length == L as u64, "header round-trips");
        if mask {
            assert!(g.masking_key == key, "key round-trips");
        }
        if L > 0 {
            let j: usize = kani::any();
            kani::assume(j < L);
            let k = if mask { key[j % 4] } else { 0 };
            assert!(g.payload[j] == payload[j] ^ k, "payload round-trips (unmasked on receipt)");
        }
        assert!(rd.pos == bytes.len(), "all bytes consumed");
        kani::cover!(true, "a frame round-tripped");
    }
    #[kani::proof]
    #[kani::unwind(8)]
    pub fn c10_roundtrip_l0_m0() {
        roundtrip::<0>(false);
    }
    #[kani::proof]
    #[kani::unwind(8)]
    pub fn c10_roundtrip_l0_m1() {
        roundtrip::<0>(true);
    }
    #[kani::proof]
    #[kani::unwind(8)]
    pub fn c10_roundtrip_l5_m0() {
        roundtrip::<5>(false);
    }
    #[kani::proof]
    #[kani::unwind(8)]
    pub fn c10_roundtrip_l5_m1() {
        roundtrip::<5>(true);
    }
}


pub mod c03 {
    use super::ContractReader;
    use crate::error::WebsocketError;
    use crate::frame::Frame;

    /// C03 (WebSocket decoder): a frame header that *claims* any 64-bit payload length, followed by X bytes.
    /// The decoder must return (no panic, no abort), with a read error whenever fewer bytes follow than claimed,
    /// and must not have asked the allocator for memory in proportion to the claim.
    fn claimed_len<const N: usize>() {
        let mut wire: [u8; N] = kani::any();
        wire[1] = (wire[1] & 0x80) | 127;
        let mask = wire[1] & 0x80 != 0;
        let length = u64::from_be_bytes([wire[2], wire[3], wire[4], wire[5], wire[6], wire[7], wire[8], wire[9]]);
        let mut rd = ContractReader { data: &wire[..], pos: 0 };
        let r = Frame::from_stream(&mut rd);
        let op = wire[0] & 0x0F;
        if !matches!(op, 0 | 1 | 2 | 8 | 9 | 10) {
            assert!(matches!(r, Err(WebsocketError::InvalidOpcode)));
            return;
        }
        let need: u128 = 10 + if mask { 4 } else { 0 } + length as u128;
        if need > N as u128 {
            assert!(matches!(r, Err(WebsocketError::ReadError)), "claimed length beyond the supplied bytes is a read error");
            kani::cover!(length > u32::MAX as u64, "a length above 4 GiB was claimed");
        } else {
            match r {
                Ok(f) => assert!(f.payload.capacity() <= 2 * N + 64, "allocation bounded by the bytes supplied"),
                Err(_) => assert!(false, "complete frame decodes"),
            }
        }
    }
    #[kani::proof]
    #[kani::unwind(4)]
    pub fn c03_ws_claimed_len_n10() {
        claimed_len::<10>();
    }
    #[kani::proof]
    #[kani::unwind(4)]
    pub fn c03_ws_claimed_len_n14() {
        claimed_len::<14>();
    }
}


pub mod c18 {
    use crate::util::base64::{Base64Decode, Base64Encode};
    use crate::util::sha1::SHA1Hash;

    /// RFC 4648 table 1, written out independently of base64.rs.
    const RFC4648: &[u8; 64] = b"ABCDEFGHIJKLMNOPQRSTUVWXYZabcdefghijklmnopqrstuvwxyz0123456789+/";

    fn val(c: u8) -> Option<u8> {
        match c {
            b'A'..=b'Z' => Some(c - b'A'),
            b'a'..=b'z' => Some(c - b'a' + 26),
            b'0'..=b'9' => Some(c - b'0' + 52),
            b'+' => Some(62),
            b'/' => Some(63),
            _ => None,
        }
    }

    /// Discharges the one fact the Verus unit c18_b64enc assumes about the constant ALPHABET: encoding the three bytes
    /// whose four sextets are (i, i, i, i) yields RFC 4648's character i four times -- for all 64 i (complete).
    #[kani::proof]
    #[kani::unwind(6)]
    pub fn c18_b64_alphabet() {
        let i: u8 = kani::any();
        kani::assume(i < 64);
        let v: u32 = ((i as u32) << 18) | ((i as u32) << 12) | ((i as u32) << 6) | i as u32;
        let bytes = [(v >> 16) as u8, (v >> 8) as u8, v as u8];
        let s = bytes.encode();
        let b = s.as_bytes();
        assert!(b.len() == 4);
        let c = RFC4648[i as usize];
        assert!(b[0] == c && b[1] == c && b[2] == c && b[3] == c, "ALPHABET[i] is RFC 4648 character i");
        kani::cover!(i == 63, "last alphabet entry reached");
    }

    /// Decoder contract on one 4-symbol group, every ASCII byte value in every position (2^28 inputs, loop bounds
    /// constant => complete for a group): the RFC 4648 value or an error; nothing malformed is accepted.
    #[kani::proof]
    #[kani::unwind(6)]
    pub fn c18_b64_decode_group_complete() {
        let g: [u8; 4] = kani::any();
        kani::assume(g[0] < 128 && g[1] < 128 && g[2] < 128 && g[3] < 128);
        let s = unsafe { std::str::from_utf8_unchecked(&g) };
        let r = s.decode();
        let (v0, v1, v2, v3) = (val(g[0]), val(g[1]), val(g[2]), val(g[3]));
        match (v0, v1, v2, v3) {
            (Some(a), Some(b), Some(c), Some(d)) => {
                let v: u32 = ((a as u32) << 18) | ((b as u32) << 12) | ((c as u32) << 6) | d as u32;
                match r {
                    Ok(out) => assert!(out.len() == 3 && out[0] == (v >> 16) as u8 && out[1] == (v >> 8) as u8 && out[2] == v as u8, "full group decodes to its 24 bits"),
                    Err(_) => assert!(false, "a well-formed group is accepted"),
                }
                kani::cover!(g[0] == b'+' && g[3] == b'/', "group using + and / reached");
            }
            (Some(a), Some(b), Some(c), None) if g[3] == b'=' => match r {
                Ok(out) => assert!(out.len() == 2 && out[0] == (a << 2) | (b >> 4) && out[1] == (b << 4) | (c >> 2), "xxx= decodes to two bytes"),
                Err(_) => assert!(c & 0x03 != 0, "xxx= with zero trailing bits is accepted"),
            },
            (Some(a), Some(b), None, None) if g[2] == b'=' && g[3] == b'=' => match r {
                Ok(out) => assert!(out.len() == 1 && out[0] == (a << 2) | (b >> 4), "xx== decodes to one byte"),
                Err(_) => assert!(b & 0x0f != 0, "xx== with zero trailing bits is accepted"),
            },
            _ => {
                assert!(r.is_err(), "malformed group (foreign symbol or misplaced padding) is rejected");
                kani::cover!(g[0] == b'=', "leading padding reached");
            }
        }
    }

    /// Input whose length is not a multiple of 4 is malformed (RFC 4648 section 3.2/4: padding is mandatory).
    fn bad_length<const N: usize>() {
        let g: [u8; N] = kani::any();
        let j: usize = kani::any();
        kani::assume(j < N);
        // every symbol is from the alphabet (checked through a symbolic index, so for all positions)
        let mut i = 0;
        while i < N {
            kani::assume(val(g[i]).is_some());
            i += 1;
        }
        let s = unsafe { std::str::from_utf8_unchecked(&g) };
        assert!(s.decode().is_err(), "length not a multiple of four is rejected");
    }
    #[kani::proof]
    #[kani::unwind(7)]
    pub fn c18_b64_decode_bad_length_1() { bad_length::<1>(); }
    #[kani::proof]
    #[kani::unwind(7)]
    pub fn c18_b64_decode_bad_length_2() { bad_length::<2>(); }
    #[kani::proof]
    #[kani::unwind(7)]
    pub fn c18_b64_decode_bad_length_3() { bad_length::<3>(); }
    #[kani::proof]
    #[kani::unwind(7)]
    pub fn c18_b64_decode_bad_length_5() { bad_length::<5>(); }

    /// Padding may only end the input: a padded group followed by another group is malformed.
    #[kani::proof]
    #[kani::unwind(10)]
    pub fn c18_b64_decode_padding_only_last() {
        let mut g: [u8; 8] = kani::any();
        let mut i = 0;
        while i < 8 {
            kani::assume(val(g[i]).is_some());
            i += 1;
        }
        let two: bool = kani::any();
        g[3] = b'=';
        if two {
            g[2] = b'=';
        }
        let s = unsafe { std::str::from_utf8_unchecked(&g) };
        assert!(s.decode().is_err(), "padding inside the input is rejected");
    }

    /// decode(b64(x)) == x where b64 is the RFC 4648 encoding written out in the harness (the Verus unit c18_b64enc
    /// proves encode(x) == b64(x) for all x, so together: the decoder inverts the encoder). N = 1..6 bytes.
    fn decode_inverts_spec<const N: usize, const M: usize>() {
        let x: [u8; N] = kani::any();
        let mut e = [b'='; M];
        assert!(M == 4 * ((N + 2) / 3));
        let mut g = 0;
        while g * 3 < N {
            let b0 = x[3 * g];
            let b1 = if 3 * g + 1 < N { x[3 * g + 1] } else { 0 };
            let b2 = if 3 * g + 2 < N { x[3 * g + 2] } else { 0 };
            e[4 * g] = RFC4648[(b0 >> 2) as usize];
            e[4 * g + 1] = RFC4648[(((b0 & 3) << 4) | (b1 >> 4)) as usize];
            if 3 * g + 1 < N {
                e[4 * g + 2] = RFC4648[(((b1 & 15) << 2) | (b2 >> 6)) as usize];
            }
            if 3 * g + 2 < N {
                e[4 * g + 3] = RFC4648[(b2 & 63) as usize];
            }
            g += 1;
        }
        let s = unsafe { std::str::from_utf8_unchecked(&e) };
        match s.decode() {
            Ok(d) => {
                assert!(d.len() == N, "decode(b64(x)) has the length of x");
                let j: usize = kani::any();
                kani::assume(j < N);
                assert!(d[j] == x[j], "decode(b64(x)) == x");
            }
            Err(_) => assert!(false, "decode accepts a canonical encoding"),
        }
    }
    #[kani::proof]
    #[kani::unwind(6)]
    pub fn c18_b64_decode_inverts_n1() { decode_inverts_spec::<1, 4>(); }
    #[kani::proof]
    #[kani::unwind(6)]
    pub fn c18_b64_decode_inverts_n2() { decode_inverts_spec::<2, 4>(); }
    #[kani::proof]
    #[kani::unwind(6)]
    pub fn c18_b64_decode_inverts_n3() { decode_inverts_spec::<3, 4>(); }
    #[kani::proof]
    #[kani::unwind(6)]
    pub fn c18_b64_decode_inverts_n4() { decode_inverts_spec::<4, 8>(); }
    #[kani::proof]
    #[kani::unwind(6)]
    pub fn c18_b64_decode_inverts_n6() { decode_inverts_spec::<6, 8>(); }

    /// SHA-1 padded length: ((8n + 583) / 512) * 64 is the least multiple of 64 that holds n message bytes, the 0x80
    /// byte and the 8-byte length (RFC 3174 section 4) -- for every n below 2^56 (loop-free => complete).
    #[kani::proof]
    pub fn c18_sha1_padded_len_complete() {
        let n: u64 = kani::any();
        kani::assume(n < (1u64 << 56));
        let code = ((n * 8 + 583) / 512) * 64;
        assert!(code % 64 == 0 && code >= n + 9 && code < n + 9 + 64, "padded length formula");
    }
}

#[cfg(test)]
mod playback {
    include!(concat!(env!("HUMPHREY_VERIF"), "/build/playback/in_ws_playback.rs"));
}

pub mod probe {
    use crate::frame::Frame;
    #[kani::proof]
    #[kani::unwind(12)]
    pub fn probe_plain10() {
        let wire: [u8; 10] = kani::any();
        kani::assume(wire[1] & 0x7f < 126);
        let r = Frame::from_stream(&wire[..]);
        if let Ok(f) = r {
            assert!(f.payload.len() as u64 == f.length);
        }
    }
}
pub mod probe2 {
    use crate::frame::Frame;
    use super::ContractReader;
    #[kani::proof]
    #[kani::unwind(12)]
    pub fn probe_chunked10() {
        let wire: [u8; 10] = kani::any();
        kani::assume(wire[1] & 0x7f < 126);
        let mut rd = ContractReader { data: &wire[..], pos: 0 };
        let r = Frame::from_stream(&mut rd);
        if let Ok(f) = r {
            assert!(f.payload.len() as u64 == f.length);
        }
    }
    #[kani::proof]
    #[kani::unwind(12)]
    pub fn probe_avail10() {
        let wire: [u8; 10] = kani::any();
        kani::assume(wire[1] & 0x7f < 126);
        let avail: usize = kani::any();
        kani::assume(avail >= 2 && avail <= 10);
        let r = Frame::from_stream(&wire[..avail]);
        if let Ok(f) = r {
            assert!(f.payload.len() as u64 == f.length);
        }
    }
}
